#!/bin/bash
# Runs the repository's own test-suite with no verification guard defined (there are no hooks in /repo).
# Builds in a scratch directory outside /repo and /verif and removes it afterwards.
set -e
D=$(mktemp -d /tmp/nstd-baseline-XXXXXX)
trap 'rm -rf "$D"' EXIT
cmake -G Ninja -S /repo -B "$D" -DCMAKE_BUILD_TYPE=RelWithDebInfo -DCMAKE_CXX_FLAGS=-Wno-error >/dev/null
cmake --build "$D" -j16 >/dev/null
ctest --test-dir "$D" -j8 --timeout 900
