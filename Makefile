# Builds simrt, instrumented libnstd objects from $(REPO)'s current working tree, and the harnesses.
REPO ?= /repo
B ?= build
CXX = g++
INSTR = -fsanitize=thread --param tsan-instrument-func-entry-exit=0
REPO_CXXFLAGS = -O1 -g -DNDEBUG -fno-omit-frame-pointer $(INSTR) -I$(REPO)/include -w
HARN_CXXFLAGS = -O1 -g -DNDEBUG -fno-omit-frame-pointer $(INSTR) -I$(B)/shadow -I$(REPO)/include -I$(REPO)/src -Isim -fno-access-control -w
SIM_CXXFLAGS = -O2 -g -fno-gnu-unique -fno-omit-frame-pointer -Isim -Wall -Wno-unused-function
LDFLAGS = -no-pie -rdynamic -lpthread -lrt -ldl

REPO_SRCS := $(wildcard $(REPO)/src/*.cpp) $(wildcard $(REPO)/src/*/*.cpp)
REPO_OBJS := $(patsubst $(REPO)/src/%.cpp,$(B)/repo/%.o,$(REPO_SRCS))
SIM_SRCS := $(wildcard sim/*.cpp)
SIM_OBJS := $(patsubst sim/%.cpp,$(B)/sim/%.o,$(SIM_SRCS)) $(B)/sim/switch.o
HARNESSES := $(patsubst harness/%.cpp,%,$(wildcard harness/*.cpp))

.PHONY: all clean setup
all: $(addprefix $(B)/,$(HARNESSES))
setup: all

$(B)/shadow/nstd/Base.hpp: $(REPO)/include/nstd/Base.hpp
	@mkdir -p $(dir $@)
	( echo '#include <new>'; grep -v 'operator new\|operator delete' $< ) > $@

$(B)/repo/%.o: $(REPO)/src/%.cpp sim/wrap.syms
	@mkdir -p $(dir $@)
	$(CXX) $(REPO_CXXFLAGS) -MMD -MP -c $< -o $@
	objcopy --redefine-syms=sim/wrap.syms --rename-section .bss=nstd_bss --rename-section .data=nstd_data $@

$(B)/sim/%.o: sim/%.cpp
	@mkdir -p $(dir $@)
	$(CXX) $(SIM_CXXFLAGS) -MMD -MP -c $< -o $@
$(B)/sim/switch.o: sim/switch.S
	@mkdir -p $(dir $@)
	$(CXX) -c $< -o $@

$(B)/h/%.o: harness/%.cpp $(B)/shadow/nstd/Base.hpp sim/wrap.syms
	@mkdir -p $(dir $@)
	$(CXX) $(HARN_CXXFLAGS) -MMD -MP -c $< -o $@
	objcopy --redefine-syms=sim/wrap.syms $@

# The simulator is linked into ONE relocatable object whose weak (COMDAT/template) symbols are made local, so that the
# linker can never merge an instrumented std:: template instance from a harness into simulator code (or vice versa).
$(B)/simrt.o: $(SIM_OBJS) Makefile
	ld -r --force-group-allocation -o $@ $(filter %.o,$^)
	nm $@ | awk '$$2 ~ /^[WVu]$$/ {print $$3}' | sort -u > $(B)/simrt.weak
	objcopy --localize-symbols=$(B)/simrt.weak $@

# (harnesses that #include a repo .cpp for access to private state define that file's symbols themselves: the archive member is then never pulled)
# The library is linked the way its users link it: as a static archive, so only the members a harness needs are present (and
# only their static constructors run).  The writable static data of these members lives in the sections nstd_bss / nstd_data,
# which the simulator restores to their start-of-process contents before every run (sim/core.cpp): a run never inherits
# library state - lazily initialised flags, caches, the thread pool - from the runs before it in the same worker process.
$(B)/libnstdrepo.a: $(REPO_OBJS)
	rm -f $@ && ar rcs $@ $^
$(B)/%: $(B)/h/%.o $(B)/simrt.o $(B)/libnstdrepo.a Makefile
	$(CXX) $(B)/h/$*.o $(B)/simrt.o $(B)/libnstdrepo.a -o $@ $(LDFLAGS)

clean:
	rm -rf $(B)

.SECONDARY:
-include $(shell find $(B) -name '*.d' 2>/dev/null)
