// C12: signals reach exactly the connected slots, safely under re-entrancy.
// Real code: include/nstd/Callback.hpp, src/Callback.cpp, Map.hpp, List.hpp.  Stub: allocator (arena ledger + shadow) only.
// Single task.  The simulator owns, on line, what every slot does at every dispatch instant (K_HARNESS decisions): recorded,
// these decisions are the schedule of the re-entrant operations and are shrunk like one (DESIGN.md §4 C12: weakest fit).
#include <nstd/Callback.hpp>
#include "sim.hpp"
#include "driver.hpp"
#include <stdio.h>
#include <string.h>
#include <vector>
#include <string>

using namespace sim;

enum Code { O_CONNECT = 1, O_DISCONNECT, O_EMIT, O_DESTROY_L, O_DESTROY_E, O_CREATE_L, O_CREATE_E, O_N };
static const char* codeName[] = {"?", "connect", "disconnect", "emit", "destroy_listener", "destroy_emitter", "create_listener", "create_emitter"};
static const char* opName(int c) { return (c > 0 && c < O_N) ? codeName[c] : "?"; }

static const int NE = 3, NL = 4, NS = 10;   /* signals: 0 sigA(int), 1 sigB(), 2 sigC(int), 3..9 = two..eight int arguments (every hand-written emit/connect/disconnect overload) */
struct MyEmitter; struct MyListener;
static void harnessSlot(int lid, int slot, int arg);
static void slotEntered(const struct MyListener* self, int slot, int arg);
static volatile int sink;
struct MyEmitter : public Callback::Emitter {
  int id;
  __attribute__((noinline)) void sigA(int v) { sink = v + 1; }
  __attribute__((noinline)) void sigB() { sink = 7; }
  __attribute__((noinline)) void sigC(int v) { sink = v + 3; }
  void emitA(int v) { emit(&MyEmitter::sigA, v); }
  void emitB() { emit(&MyEmitter::sigB); }
  void emitC(int v) { emit(&MyEmitter::sigC, v); }
  __attribute__((noinline)) void sig2(int a, int b) { sink = a + b; }
  __attribute__((noinline)) void sig3(int a, int b, int c) { sink = a + c; }
  __attribute__((noinline)) void sig4(int a, int b, int c, int d) { sink = a + d; }
  __attribute__((noinline)) void sig5(int a, int b, int c, int d, int e) { sink = a + e; }
  __attribute__((noinline)) void sig6(int a, int b, int c, int d, int e, int f) { sink = a + f; }
  __attribute__((noinline)) void sig7(int a, int b, int c, int d, int e, int f, int g) { sink = a + g; }
  __attribute__((noinline)) void sig8(int a, int b, int c, int d, int e, int f, int g, int h) { sink = a + h; }
  void emitN(int n, int v) {
    switch (n) {
    case 2: emit(&MyEmitter::sig2, v, 2); break; case 3: emit(&MyEmitter::sig3, v, 2, 3); break; case 4: emit(&MyEmitter::sig4, v, 2, 3, 4); break;
    case 5: emit(&MyEmitter::sig5, v, 2, 3, 4, 5); break; case 6: emit(&MyEmitter::sig6, v, 2, 3, 4, 5, 6); break; case 7: emit(&MyEmitter::sig7, v, 2, 3, 4, 5, 6, 7); break;
    case 8: emit(&MyEmitter::sig8, v, 2, 3, 4, 5, 6, 7, 8); break; }
  }
};
struct MyListener : public Callback::Listener {
  int id;
  void sa0(int v) { slotEntered(this, 0, v); }
  void sa1(int v) { slotEntered(this, 1, v); }
  void sb0() { slotEntered(this, 2, 0); }
  static void argsOk(bool ok) { if (!ok) fail("C12/wrong_arguments", "a slot received other arguments than were emitted"); }
  void s2(int a, int b) { argsOk(b == 2); slotEntered(this, 3, a); }
  void s3(int a, int b, int c) { argsOk(b == 2 && c == 3); slotEntered(this, 4, a); }
  void s4(int a, int b, int c, int d) { argsOk(b == 2 && c == 3 && d == 4); slotEntered(this, 5, a); }
  void s5(int a, int b, int c, int d, int e) { argsOk(b == 2 && c == 3 && d == 4 && e == 5); slotEntered(this, 6, a); }
  void s6(int a, int b, int c, int d, int e, int f) { argsOk(b == 2 && c == 3 && d == 4 && e == 5 && f == 6); slotEntered(this, 7, a); }
  void s7(int a, int b, int c, int d, int e, int f, int g) { argsOk(b == 2 && c == 3 && d == 4 && e == 5 && f == 6 && g == 7); slotEntered(this, 8, a); }
  void s8(int a, int b, int c, int d, int e, int f, int g, int h) { argsOk(b == 2 && c == 3 && d == 4 && e == 5 && f == 6 && g == 7 && h == 8); slotEntered(this, 9, a); }
};

/* Emitters and listeners are used through a derived type whose Emitter/Listener part does not sit at offset 0 (a second base comes first),
   as in applications that mix the callback classes into their own hierarchies: connect/disconnect must adjust the object pointers. */
struct PadBase { long pad[3]; PadBase() { pad[0] = pad[1] = pad[2] = 0x5a5a5a5a; } };
struct MyEmitterMI : PadBase, MyEmitter {};
/* Two more slots (10, 11) for the one-int signals: ONE non-virtual member function reached through two different base sub-objects of the
   listener.  As pointers to members of the listener type they share the function word and differ only in the this-adjustment. */
struct HandlerPart { void handle(int v); };
struct PartA : HandlerPart {}; struct PartB : HandlerPart {};
struct MyListenerMI : PadBase, MyListener, PartA, PartB {};
typedef void (MyListenerMI::*IntSlotMI)(int);
static IntSlotMI partSlot(int slot) { return slot == 10 ? static_cast<IntSlotMI>(static_cast<void (PartA::*)(int)>(&HandlerPart::handle)) : static_cast<IntSlotMI>(static_cast<void (PartB::*)(int)>(&HandlerPart::handle)); }
static bool sameMember(const Callback::MemberFuncPtr& a, const Callback::MemberFuncPtr& b) { return memcmp(&a.ptr, &b.ptr, sizeof a.ptr) == 0; }   /* all 16 bytes: function word and adjustment */
struct Conn { int e, sig, l, slot; uint64_t seq; bool live; };           // sig 0 = sigA(int), 1 = sigB(), 2 = sigC(int); slots 0,1 take int (sigA, sigC: one slot may serve both), slot 2 takes nothing (sigB)
struct Emission { int e, sig; uint64_t startSeq; uint64_t cursorSeq; bool emitterDied; };
struct Ctx {
  const RunSpec* spec; MyEmitterMI* em[NE]; MyListenerMI* li[NL];
  std::vector<Conn> conns; std::vector<Emission> stack; uint64_t seq; int invocations; int finalPhase;
};
static Ctx C;

static uint64_t outermostStart(int e, int sig) { for (auto& m : C.stack) if (m.e == e && m.sig == sig && !m.emitterDied) return m.startSeq; return ~0ULL; }
static bool eligible(const Conn& c, const Emission& m) { return c.live && c.e == m.e && c.sig == m.sig && c.seq > m.cursorSeq && c.seq < outermostStart(m.e, m.sig) && C.li[c.l] != 0; }

static void doConnect(int e, int sig, int l, int slot) {
  if (!C.em[e] || !C.li[l]) return;
  if (sig == 0 && slot >= 10) Callback::connect(C.em[e], &MyEmitter::sigA, C.li[l], partSlot(slot));
  else if (sig == 2 && slot >= 10) Callback::connect(C.em[e], &MyEmitter::sigC, C.li[l], partSlot(slot));
  else if (sig == 0) { if (slot == 0) Callback::connect(C.em[e], &MyEmitter::sigA, C.li[l], &MyListener::sa0); else Callback::connect(C.em[e], &MyEmitter::sigA, C.li[l], &MyListener::sa1); }
  else if (sig == 2) { if (slot == 0) Callback::connect(C.em[e], &MyEmitter::sigC, C.li[l], &MyListener::sa0); else Callback::connect(C.em[e], &MyEmitter::sigC, C.li[l], &MyListener::sa1); }
  else if (sig == 1) Callback::connect(C.em[e], &MyEmitter::sigB, C.li[l], &MyListener::sb0);
  else switch (sig) {
    case 3: Callback::connect(C.em[e], &MyEmitter::sig2, C.li[l], &MyListener::s2); break; case 4: Callback::connect(C.em[e], &MyEmitter::sig3, C.li[l], &MyListener::s3); break;
    case 5: Callback::connect(C.em[e], &MyEmitter::sig4, C.li[l], &MyListener::s4); break; case 6: Callback::connect(C.em[e], &MyEmitter::sig5, C.li[l], &MyListener::s5); break;
    case 7: Callback::connect(C.em[e], &MyEmitter::sig6, C.li[l], &MyListener::s6); break; case 8: Callback::connect(C.em[e], &MyEmitter::sig7, C.li[l], &MyListener::s7); break;
    case 9: Callback::connect(C.em[e], &MyEmitter::sig8, C.li[l], &MyListener::s8); break; }
  Host h; bool dup = false; for (auto& c : C.conns) if (c.live && c.e == e && c.sig == sig && c.l == l && c.slot == slot) dup = true;
  if (dup) probe("duplicate_connection");
  for (auto& c : C.conns) if (c.live && c.e == e && c.sig != sig && c.l == l && c.slot == slot) probe("slot_on_two_signals_of_one_emitter");
  if (outermostStart(e, sig) != ~0ULL) probe("connect_during_emission");
  C.conns.push_back(Conn{e, sig, l, slot, ++C.seq, true});
}
static void doDisconnect(int e, int sig, int l, int slot) {
  if (!C.em[e] || !C.li[l]) return;
  Conn* victim = 0; { Host h; for (auto& c : C.conns) if (c.live && c.e == e && c.sig == sig && c.l == l && c.slot == slot) { victim = &c; break; } }
  if (!victim) probe("disconnect_of_a_connection_that_does_not_exist");   /* a second disconnect, or a pair that never was connected: nothing to remove - and nothing else may change */
  else { Host h; for (auto& m : C.stack) if (m.e == e && m.sig == sig && victim->seq > m.cursorSeq && victim->seq < outermostStart(e, sig)) probe("disconnect_pending_slot"); victim->live = false; ++C.seq; }
  if (sig == 0 && slot >= 10) Callback::disconnect(C.em[e], &MyEmitter::sigA, C.li[l], partSlot(slot));
  else if (sig == 2 && slot >= 10) Callback::disconnect(C.em[e], &MyEmitter::sigC, C.li[l], partSlot(slot));
  else if (sig == 0) { if (slot == 0) Callback::disconnect(C.em[e], &MyEmitter::sigA, C.li[l], &MyListener::sa0); else Callback::disconnect(C.em[e], &MyEmitter::sigA, C.li[l], &MyListener::sa1); }
  else if (sig == 2) { if (slot == 0) Callback::disconnect(C.em[e], &MyEmitter::sigC, C.li[l], &MyListener::sa0); else Callback::disconnect(C.em[e], &MyEmitter::sigC, C.li[l], &MyListener::sa1); }
  else if (sig == 1) Callback::disconnect(C.em[e], &MyEmitter::sigB, C.li[l], &MyListener::sb0);
  else switch (sig) {
    case 3: Callback::disconnect(C.em[e], &MyEmitter::sig2, C.li[l], &MyListener::s2); break; case 4: Callback::disconnect(C.em[e], &MyEmitter::sig3, C.li[l], &MyListener::s3); break;
    case 5: Callback::disconnect(C.em[e], &MyEmitter::sig4, C.li[l], &MyListener::s4); break; case 6: Callback::disconnect(C.em[e], &MyEmitter::sig5, C.li[l], &MyListener::s5); break;
    case 7: Callback::disconnect(C.em[e], &MyEmitter::sig6, C.li[l], &MyListener::s6); break; case 8: Callback::disconnect(C.em[e], &MyEmitter::sig7, C.li[l], &MyListener::s7); break;
    case 9: Callback::disconnect(C.em[e], &MyEmitter::sig8, C.li[l], &MyListener::s8); break; }
}
static void doEmit(int e, int sig, int arg) {
  if (!C.em[e] || C.stack.size() >= 4 || C.invocations > 150) return;
  { Host h; if (outermostStart(e, sig) != ~0ULL) probe("nested_same_signal"); C.stack.push_back(Emission{e, sig, ++C.seq, 0, false}); }
  MyEmitterMI* em = C.em[e];
  if (sig == 0) em->emitA(arg); else if (sig == 2) em->emitC(arg); else if (sig == 1) em->emitB(); else em->emitN(sig - 1, arg);
  Host h;
  Emission m = C.stack.back();
  if (!m.emitterDied && C.em[e] == em) {
    // completed normally: nothing that was eligible may have been left out
    for (auto& c : C.conns) if (eligible(c, m)) { char b[160]; snprintf(b, sizeof b, "emission of signal %d on emitter %d returned without invoking listener %d slot %d (connected before the emission began and still connected)", sig, e, c.l, c.slot); C.stack.pop_back(); fail("C12/slot_skipped", "%s", b); }
  }
  C.stack.pop_back();
}
static void doDestroyListener(int l) {
  if (!C.li[l]) return;
  { Host h; for (auto& c : C.conns) if (c.live && c.l == l) { for (auto& m : C.stack) if (m.e == c.e && m.sig == c.sig && c.seq > m.cursorSeq) probe("destroy_listener_pending"); c.live = false; } ++C.seq; }
  MyListenerMI* p = C.li[l]; C.li[l] = 0; delete p;
}
static void doDestroyEmitter(int e) {
  if (!C.em[e]) return;
  { Host h; for (auto& c : C.conns) if (c.live && c.e == e) c.live = false; for (auto& m : C.stack) if (m.e == e) { m.emitterDied = true; probe("destroy_emitter_during_emission"); } ++C.seq; }
  MyEmitterMI* p = C.em[e]; C.em[e] = 0; delete p;
}
static void doCreateListener(int l) { if (C.li[l]) return; C.li[l] = new MyListenerMI; C.li[l]->id = l; }
static void doCreateEmitter(int e) { if (C.em[e]) return; C.em[e] = new MyEmitterMI; C.em[e]->id = e; }

static void perform(int code, int a0, int a1, int a2, int a3) {
  logEvent("op", code, a0 * 1000 + a1 * 100 + a2 * 10 + a3);
  static const int intSlots[4] = {0, 1, 10, 11}; int e = a0 % NE, l = a1 % NL, sig = a2 % NS, slot = sig == 1 ? 2 : sig >= 3 ? sig : intSlots[a3 % 4];
  switch (code) {
  case O_CONNECT: doConnect(e, sig, l, slot); break;
  case O_DISCONNECT: doDisconnect(e, sig, l, slot); break;
  case O_EMIT: doEmit(e, sig, a3); break;
  case O_DESTROY_L: doDestroyListener(l); break;
  case O_DESTROY_E: doDestroyEmitter(e); break;
  case O_CREATE_L: doCreateListener(l); break;
  case O_CREATE_E: doCreateEmitter(e); break;
  }
}

static void slotEntered(const MyListener* self, int slot, int arg) {
  /* the object the slot runs on must be the Listener part of one of the live listeners (a wrong pointer adjustment in connect() shows here) */
  int lid = -1; for (int l = 0; l < NL; ++l) if (C.li[l] && (const MyListener*)C.li[l] == self) lid = l;
  if (lid < 0) fail("C12/slot_on_dead_or_wrong_object", "slot %d was invoked on an object that is not the Listener part of any live listener (a destroyed listener, or a wrong pointer adjustment in connect)", slot);
  harnessSlot(lid, slot, arg);
}
void HandlerPart::handle(int v) {
  int lid = -1, slot = -1; for (int l = 0; l < NL; ++l) if (C.li[l]) { if ((HandlerPart*)(PartA*)C.li[l] == this) { lid = l; slot = 10; } else if ((HandlerPart*)(PartB*)C.li[l] == this) { lid = l; slot = 11; } }
  if (lid < 0) fail("C12/slot_on_dead_or_wrong_object", "the shared handler was invoked on an object that is neither handler part of any live listener");
  harnessSlot(lid, slot, v);
}
static void harnessSlot(int lid, int slot, int arg) {
  C.invocations++;
  logEvent("slot", lid, slot, arg);
  {
    Host h;
    if (C.stack.empty()) fail("C12/slot_outside_emission", "slot invoked although no emission is in progress");
    Emission& m = C.stack.back();
    if (!C.li[lid]) fail("C12/slot_on_destroyed_listener", "slot %d invoked on destroyed listener %d", slot, lid);
    if (m.emitterDied || !C.em[m.e]) fail("C12/slot_from_destroyed_emitter", "slot invoked by an emission of destroyed emitter %d", m.e);
    // the invoked connection must be the next eligible one of the innermost emission
    const Conn* next = 0; for (auto& c : C.conns) if (eligible(c, m)) { next = &c; break; }
    bool matchesAny = false; for (auto& c : C.conns) if (c.e == m.e && c.sig == m.sig && c.l == lid && c.slot == slot && c.live) matchesAny = true;
    if (!next || next->l != lid || next->slot != slot) {
      const char* cls = !matchesAny ? "C12/disconnected_slot_invoked" : "C12/wrong_slot_order";
      char b[200]; if (next) snprintf(b, sizeof b, "expected next: listener %d slot %d", next->l, next->slot); else snprintf(b, sizeof b, "expected no further invocation");
      fail(cls, "emission of signal %d on emitter %d invoked listener %d slot %d; %s", m.sig, m.e, lid, slot, b);
    }
    m.cursorSeq = next->seq;
  }
  if (C.finalPhase) return;
  // re-entrant actions chosen on line
  int n = choose(K_HARNESS, 3);
  for (int i = 0; i < n; ++i) {
    int v = choose(K_HARNESS2, 7 * NE * NL * NS * 4 * 2);
    if (!v) continue;
    int code = 1 + v % 7; v /= 7; int a0 = v % NE; v /= NE; int a1 = v % NL; v /= NL; int a2 = v % NS; v /= NS; int a3 = v % 4; v /= 4;
    if (v & 1) { a0 = C.stack.back().e; a2 = C.stack.back().sig; }          // bias: act on the signal being emitted
    if (code == O_DESTROY_L && (a3 & 1)) a1 = lid;                               // bias: destroy own listener
    if (code == O_DISCONNECT && (a3 & 1)) { a1 = lid; a3 = slot == 10 ? 2 : slot == 11 ? 3 : slot; }                // bias: disconnect itself
    probe("reentrant_action");
    perform(code, a0, a1, a2, a3);
  }
}

static Callback::MemberFuncPtr sigKey(int sig) {
  switch (sig) { case 0: return Callback::MemberFuncPtr(&MyEmitter::sigA); case 1: return Callback::MemberFuncPtr(&MyEmitter::sigB); case 2: return Callback::MemberFuncPtr(&MyEmitter::sigC);
    case 3: return Callback::MemberFuncPtr(&MyEmitter::sig2); case 4: return Callback::MemberFuncPtr(&MyEmitter::sig3); case 5: return Callback::MemberFuncPtr(&MyEmitter::sig4); case 6: return Callback::MemberFuncPtr(&MyEmitter::sig5);
    case 7: return Callback::MemberFuncPtr(&MyEmitter::sig6); case 8: return Callback::MemberFuncPtr(&MyEmitter::sig7); default: return Callback::MemberFuncPtr(&MyEmitter::sig8); } }
static Callback::MemberFuncPtr slotKey(int slot) {
  switch (slot) { case 0: return Callback::MemberFuncPtr(&MyListener::sa0); case 1: return Callback::MemberFuncPtr(&MyListener::sa1); case 2: return Callback::MemberFuncPtr(&MyListener::sb0);
    case 3: return Callback::MemberFuncPtr(&MyListener::s2); case 4: return Callback::MemberFuncPtr(&MyListener::s3); case 5: return Callback::MemberFuncPtr(&MyListener::s4); case 6: return Callback::MemberFuncPtr(&MyListener::s5);
    case 7: return Callback::MemberFuncPtr(&MyListener::s6); case 8: return Callback::MemberFuncPtr(&MyListener::s7); case 10: case 11: return Callback::MemberFuncPtr(partSlot(slot)); default: return Callback::MemberFuncPtr(&MyListener::s8); } }
// both sides' bookkeeping must describe exactly the model's live connections
static void checkBookkeeping() {
  for (int e = 0; e < NE; ++e) { MyEmitter* em = C.em[e]; if (!em) continue;
    for (int sig = 0; sig < NS; ++sig) {
      std::vector<Conn> exp; { Host h; for (auto& c : C.conns) if (c.live && c.e == e && c.sig == sig) exp.push_back(c); }
      Callback::MemberFuncPtr key = sigKey(sig);
      Map<Callback::MemberFuncPtr, Callback::Emitter::SignalData>::Iterator it = em->signalData.find(key);
      size_t n = 0;
      if (it != em->signalData.end()) {
        Callback::Emitter::SignalData& d = *it;
        if (d.activation) fail("C12/bookkeeping/activation_left", "emitter %d signal %d still has an activation record outside any emission", e, sig);
        for (List<Callback::Emitter::Slot>::Iterator i = d.slots.begin(), end = d.slots.end(); i != end; ++i, ++n) {
          if (i->state != Callback::Emitter::Slot::connected) fail("C12/bookkeeping/stale_slot_state", "emitter %d signal %d entry %zu is in state %d outside any emission", e, sig, n, (int)i->state);
          if (n >= exp.size()) fail("C12/bookkeeping/extra_emitter_entry", "emitter %d signal %d lists %zu+ entries, %zu connections are live", e, sig, n + 1, exp.size());
          MyListener* ml = C.li[exp[n].l];
          if (i->receiver == (Callback::Listener*)ml && !sameMember(i->slot, slotKey(exp[n].slot))) fail("C12/bookkeeping/emitter_entry_mismatch", "emitter %d signal %d entry %zu names another slot of listener %d than connection #%zu (slot %d)", e, sig, n, exp[n].l, n, exp[n].slot);
          if (i->receiver != (Callback::Listener*)ml) fail("C12/bookkeeping/emitter_entry_mismatch", "emitter %d signal %d entry %zu refers to another listener than connection #%zu (listener %d slot %d)", e, sig, n, n, exp[n].l, exp[n].slot);
        }
      }
      if (n != exp.size()) fail("C12/bookkeeping/missing_emitter_entry", "emitter %d signal %d lists %zu entries, %zu connections are live", e, sig, n, exp.size());
    }
  }
  for (int l = 0; l < NL; ++l) { MyListener* ml = C.li[l]; if (!ml) continue;
    size_t total = 0, expTotal = 0; { Host h; for (auto& c : C.conns) if (c.live && c.l == l) expTotal++; }
    for (Map<Callback::Emitter*, List<Callback::Listener::Signal> >::Iterator i = ml->slotData.begin(), end = ml->slotData.end(); i != end; ++i) {
      Callback::Emitter* em = i.key(); int e = -1; for (int q = 0; q < NE; ++q) if ((Callback::Emitter*)C.em[q] == em) e = q;
      if (e < 0 && (*i).size() > 0) fail("C12/bookkeeping/listener_refers_to_dead_emitter", "listener %d still lists %zu connections to a destroyed emitter", l, (size_t)(*i).size());
      total += (*i).size();
      if (e >= 0) {     /* the (signal, slot) records for this emitter must be exactly the model's live connections, as a multiset */
        std::vector<Conn> exp; { Host h; for (auto& c : C.conns) if (c.live && c.l == l && c.e == e) exp.push_back(c); }
        std::vector<char> used(exp.size(), 0);
        for (List<Callback::Listener::Signal>::Iterator j = (*i).begin(), jend = (*i).end(); j != jend; ++j) {
          bool found = false;
          for (size_t q = 0; q < exp.size() && !found; ++q) if (!used[q] && sameMember(j->signal, sigKey(exp[q].sig)) && sameMember(j->slot, slotKey(exp[q].slot))) { used[q] = 1; found = true; }
          if (!found) fail("C12/bookkeeping/listener_record_mismatch", "listener %d holds a (signal, slot) record for emitter %d that matches no live connection (the records of another connection were dropped instead)", l, e);
        }
      }
    }
    if (total != expTotal) fail("C12/bookkeeping/listener_count", "listener %d lists %zu connections, %zu are live", l, total, expTotal);
  }
}

static void mainTask(void*) {
  const RunSpec& s = *C.spec;
  for (int e = 0; e < NE; ++e) if ((simdrv::knob(s, "emitters", 7) >> e) & 1) doCreateEmitter(e);
  for (int l = 0; l < NL; ++l) if ((simdrv::knob(s, "listeners", 15) >> l) & 1) doCreateListener(l);
  for (size_t i = 0; i < s.plan.size(); ++i) { const Op& op = s.plan[i]; perform(op.code, (int)op.a[0], (int)op.a[1], (int)op.a[2], (int)op.a[3]); }
  checkBookkeeping();
  C.finalPhase = 1;
  for (int e = 0; e < NE; ++e) for (int sig = 0; sig < NS; ++sig) if (C.em[e]) { C.invocations = 0; doEmit(e, sig, 5); }
  for (int l = 0; l < NL; ++l) doDestroyListener(l);
  for (int e = 0; e < NE; ++e) doDestroyEmitter(e);
}
static void finalize() { memCheckLeaks("C12/memory_leaked"); }

static void generate(RunSpec& s, int tier) {
  uint64_t z = s.seed;
  auto r = [&](uint64_t n) { z += 0x9e3779b97f4a7c15ULL; uint64_t x = z; x = (x ^ (x >> 30)) * 0xbf58476d1ce4e5b9ULL; x = (x ^ (x >> 27)) * 0x94d049bb133111ebULL; x ^= x >> 31; return n ? x % n : x; };
  int em = 1 + (int)r(7), li = 1 + (int)r(15); if (r(2)) { em = 7; li = 15; }
  s.knobs["emitters"] = em; s.knobs["listeners"] = li;
  static const int pct[] = {0, 30, 60, 90}; s.knobs["reentrant_pct"] = pct[r(4)];
  // generation-time sketch of what exists, to bias the plan towards connected signals (the run-time model is authoritative)
  bool eAlive[NE], lAlive[NL]; for (int i = 0; i < NE; ++i) eAlive[i] = (em >> i) & 1; for (int i = 0; i < NL; ++i) lAlive[i] = (li >> i) & 1;
  struct GC { int e, sig, l, slot; }; std::vector<GC> gc;
  auto pickE = [&]() { for (int t = 0; t < 8; ++t) { int e = (int)r(NE); if (eAlive[e]) return e; } return (int)r(NE); };
  auto pickL = [&]() { for (int t = 0; t < 8; ++t) { int l = (int)r(NL); if (lAlive[l]) return l; } return (int)r(NL); };
  bool wide = r(3) == 0;      /* a third of the plans use mostly the signals with two to eight arguments */
  int n = 4 + (int)r(12);
  for (int i = 0; i < n; ++i) {
    Op o; o.task = 0; o.a[0] = pickE(); o.a[1] = pickL(); o.a[2] = wide ? (r(3) ? 3 + (int64_t)r(7) : (int64_t)r(3)) : (int64_t)r(3); o.a[3] = r(3) ? (int64_t)r(2) : 2 + (int64_t)r(2);
    uint64_t k = r(100);
    if (i < 3) k = r(38);     // start with a few connections
    o.code = k < 38 ? O_CONNECT : k < 50 ? O_DISCONNECT : k < 84 ? O_EMIT : k < 90 ? O_DESTROY_L : k < 93 ? O_DESTROY_E : k < 97 ? O_CREATE_L : O_CREATE_E;
    if (o.code == O_CONNECT && !gc.empty() && r(5) == 0) { GC g = gc[r(gc.size())]; o.a[0] = g.e; o.a[1] = g.l; o.a[2] = g.sig; o.a[3] = g.slot == 10 ? 2 : g.slot == 11 ? 3 : g.slot >= 2 ? 0 : g.slot; if ((g.sig == 0 || g.sig == 2) && r(2)) o.a[2] = 2 - g.sig; }   // duplicate connection, or the same slot on the emitter's other int signal
    if ((o.code == O_DISCONNECT || o.code == O_EMIT) && !gc.empty() && r(6) != 0) { GC g = gc[r(gc.size())]; o.a[0] = g.e; o.a[2] = g.sig; if (o.code == O_DISCONNECT) { o.a[1] = g.l; o.a[3] = g.slot == 10 ? 2 : g.slot == 11 ? 3 : g.slot >= 2 ? 0 : g.slot; } }
    if (o.code == O_CONNECT) { static const int is[4] = {0, 1, 10, 11}; int sg = (int)(o.a[2] % NS); gc.push_back(GC{(int)o.a[0], sg, (int)o.a[1], sg == 1 ? 2 : sg >= 3 ? sg : is[o.a[3] % 4]}); }
    if (o.code == O_DESTROY_L) lAlive[o.a[1]] = false; if (o.code == O_DESTROY_E) eAlive[o.a[0]] = false; if (o.code == O_CREATE_L) { o.a[1] = (int64_t)r(NL); lAlive[o.a[1]] = true; } if (o.code == O_CREATE_E) { o.a[0] = (int64_t)r(NE); eAlive[o.a[0]] = true; }
    s.plan.push_back(o);
  }
  (void)tier;
}

static Result execute(const RunSpec& s, bool keepLog) {
  Config cfg; cfg.mem_switch_log2 = 255; cfg.sync_switch_log2 = 255;
  double p = simdrv::knob(s, "reentrant_pct", 0) / 100.0; cfg.rate[K_HARNESS] = p; cfg.rate[K_HARNESS2] = 1.0;
  cfg.step_budget = 2000000; cfg.keep_log = keepLog;
  C.spec = &s; memset(C.em, 0, sizeof C.em); memset(C.li, 0, sizeof C.li); C.conns.clear(); C.stack.clear(); C.seq = 0; C.invocations = 0; C.finalPhase = 0;
  Hooks h; h.main_fn = mainTask; h.finalize = finalize;
  Result r = run(s, cfg, h);
  return r;
}

static simdrv::Harness H = {"C12", "c12_callback", generate, execute, opName, nullptr, nullptr, "", ""};
int main(int argc, char** argv) { return simdrv::main(argc, argv, H); }
