// C13: Server clients deliver written bytes completely and in order, whatever the OS does with the individual send calls;
// postponed/send-buffer size = accepted bytes not yet handed to the OS; onWrite once per drained backlog; a suspended client
// gets no read notifications.
// Real code: src/Socket/Server.cpp, src/Socket/Socket.cpp (send/recv mapping, epoll Poll), Buffer.hpp, HashMap/HashSet/PoolList/MultiMap.
// Stub: simnet kernel (stream sockets with bounded buffers, level-triggered epoll, eventfd), peers, clock.
#include <nstd/Socket/Server.hpp>
#include <nstd/Socket/Socket.hpp>
#include "sim.hpp"
#include "driver.hpp"
#include "net.hpp"
#include <stdio.h>
#include <string.h>
#include <unistd.h>
#include <sys/socket.h>
#include <fcntl.h>

using namespace sim;

enum Code { S_WRITE = 1, S_SUSPEND, S_RESUME, S_READMODE, S_BUFQ, S_WAIT, S_INWRITE, S_INREAD, P_READ, P_STALL, P_SEND, P_CAP, P_CLOSE, S_INSUSPEND, S_INRESUME, CODE_N };
static const char* codeName[] = {"?", "write", "suspend", "resume", "readmode", "bufq", "wait", "write_in_onWrite", "write_in_onRead", "peer.read", "peer.stall", "peer.send", "peer.cap", "peer.close", "suspend_in_onRead", "resume_in_onRead"};
static const char* opName(int c) { return (c > 0 && c < CODE_N) ? codeName[c] : "?"; }

static inline unsigned char codeByte(int stream, uint64_t off) { uint64_t x = off * 0x9e3779b97f4a7c15ULL + (uint64_t)stream * 0xbf58476d1ce4e5b9ULL; x ^= x >> 29; x *= 0x94d049bb133111ebULL; x ^= x >> 32; return (unsigned char)x; }

struct ClientCb;
struct Cl {
  Server::Client* client; ClientCb* cb; Socket* far; int fd, farFd;
  uint64_t accepted, inflight, peerGot, peerSent, clientRead; int64_t backlog; int expectOnWrite; int onWriteCount;
  bool suspended, closed, peerClosedByScript, failedIO; int readMode; int pendInWrite, pendInRead, pendSuspend, pendResume, pendSuspendW, pendResumeW; int peerTask; bool peerDone;
  int onReadWhileSuspended;
};
struct Ctx {
  const RunSpec* spec; Server* srv; int nc; Cl cl[3]; size_t pos; int waitTicks; bool scriptDone, finished, inWrite; int inWriteClient; Server::Timer* driver; int tailTicks;
};
static Ctx C;

/* blocks of tens of kilobytes are only written when the peers' receive queues are at least 2 KiB throughout the run: through a 5-byte queue such a
   block takes more steps than a run has (that would be a slow run, not a lost byte) */
static bool bigWritesAllowed() { return simdrv::knob(*C.spec, "cap", 1 << 20) >= 2048; }
static void doWrite(int c, size_t n, const char* where) {
  Cl& k = C.cl[c]; if (k.closed || !k.client || (n == 0 && k.backlog <= 0)) return;   /* an empty write is only issued while a backlog is pending (without one the unchanged library treats send()==0 as a closed connection: not judged) */
  static unsigned char buf[81920]; if (n > sizeof buf) n = sizeof buf;
  for (size_t i = 0; i < n; ++i) buf[i] = codeByte(c, k.accepted + i);
  usize postponed = 12345678;
  bool wasBacklog = k.backlog > 0;
  C.inWrite = true; C.inWriteClient = c; k.inflight = n;
  bool ok = k.client->write(buf, n, &postponed);
  NoPreempt np;
  C.inWrite = false; k.inflight = 0;
  uint64_t handed = simnet::stats(k.fd).bytes_out;
  if (!ok) { k.failedIO = true; logEvent("write_false", c, (int64_t)n); if (postponed != 0 && postponed != 12345678) fail("C13/postponed_after_failed_write", "write returned false with postponed=%zu", (size_t)postponed); return; }
  k.accepted += n;
  int64_t backlog = (int64_t)k.accepted - (int64_t)handed;
  logEvent("write_true", c, (int64_t)n, backlog);
  if (backlog < 0) fail("C13/os_got_more_than_accepted", "client %d: %llu bytes handed to the OS but only %llu accepted", c, (unsigned long long)handed, (unsigned long long)k.accepted);
  if ((int64_t)postponed != backlog) fail("C13/postponed_mismatch", "client %d write(%zu) in %s: postponed=%zu but accepted-handed=%lld", c, n, where, (size_t)postponed, (long long)backlog);
  if ((int64_t)k.client->getSendBufferSize() != backlog) fail("C13/sendbuffersize_mismatch", "client %d: getSendBufferSize()=%zu but accepted-handed=%lld", c, (size_t)k.client->getSendBufferSize(), (long long)backlog);
  if (wasBacklog) probe("backlog_appended_while_nonempty");
  if (backlog > 0 && !wasBacklog) probe("backlog_created");
  k.backlog = backlog;
}

static void sendHook(int fd, size_t n) {
  for (int c = 0; c < C.nc; ++c) if (C.cl[c].fd == fd) {
    Cl& k = C.cl[c];
    if (C.inWrite && C.inWriteClient == c) return;   // direct send inside write(): accounted for when write returns
    int64_t nb = (int64_t)k.accepted - (int64_t)simnet::stats(fd).bytes_out;
    if (nb < 0) { failSoft("C13/os_got_more_than_accepted", "client %d: more bytes handed to the OS than accepted (backlog %lld)", c, (long long)nb); return; }
    if (k.backlog > 0 && nb == 0) { k.expectOnWrite++; probe("backlog_drained"); }
    if (nb > 0 && (size_t)nb < (size_t)k.backlog) probe("backlog_partially_drained");
    k.backlog = nb;
  }
}
static void failHook(int fd, bool isSend, int err) { for (int c = 0; c < C.nc; ++c) if (C.cl[c].fd == fd) C.cl[c].failedIO = true; }

struct ClientCb : public Server::Client::ICallback {
  int c;
  void onRead() override {
    Cl& k = C.cl[c];
    if (k.closed) fail("C13/callback_after_remove", "onRead on removed client %d", c);
    if (k.suspended) fail("C13/onRead_while_suspended", "client %d got onRead between suspend() and resume()", c);
    byte buf[256]; usize got = 0; usize want = k.readMode == 1 ? 16 : sizeof buf;
    if (k.client->read(buf, want, got)) { for (usize i = 0; i < got; ++i) if (buf[i] != codeByte(100 + c, k.clientRead + i)) fail("C13/client_read_wrong_byte", "client %d read a wrong byte at offset %llu", c, (unsigned long long)(k.clientRead + i)); k.clientRead += got; }
    if (k.pendInRead) { int n = k.pendInRead; k.pendInRead = 0; probe("write_inside_onRead"); doWrite(c, n, "onRead"); }
    /* flow control from inside a read callback (the proxy back-pressure pattern): suspend or resume a client, possibly one whose own read event was fetched in the same poll round */
    if (k.pendSuspend) { int t = k.pendSuspend - 1; k.pendSuspend = 0; Cl& o = C.cl[t]; if (!o.closed && o.client) { probe(t == c ? "suspend_self_inside_onRead" : "suspend_other_inside_onRead"); o.client->suspend(); o.suspended = true; logEvent("suspend_in_onRead", c, t); } }
    if (k.pendResume) { int t = k.pendResume - 1; k.pendResume = 0; Cl& o = C.cl[t]; if (!o.closed && o.client) { o.suspended = false; o.client->resume(); logEvent("resume_in_onRead", c, t); } }
  }
  void onWrite() override {
    Cl& k = C.cl[c];
    if (k.closed) fail("C13/callback_after_remove", "onWrite on removed client %d", c);
    k.onWriteCount++;
    logEvent("onWrite", c, k.backlog, k.expectOnWrite);
    if (k.backlog != 0) fail("C13/onWrite_with_backlog", "client %d got onWrite while %lld accepted bytes are not yet handed to the OS", c, (long long)k.backlog);
    if (k.expectOnWrite <= 0) fail("C13/unexpected_onWrite", "client %d got onWrite although no backlog drained since the last one", c);
    k.expectOnWrite--;
    if (k.pendInWrite) { int n = k.pendInWrite; k.pendInWrite = 0; probe("write_inside_onWrite"); doWrite(c, n, "onWrite"); }
    /* flow control from inside onWrite (the event that drained the backlog may also have reported the client readable) */
    if (k.pendSuspendW) { int t = k.pendSuspendW - 1; k.pendSuspendW = 0; Cl& o = C.cl[t]; if (!o.closed && o.client) { probe(t == c ? "suspend_self_inside_onWrite" : "suspend_other_inside_onWrite"); o.client->suspend(); o.suspended = true; logEvent("suspend_in_onWrite", c, t); } }
    if (k.pendResumeW) { int t = k.pendResumeW - 1; k.pendResumeW = 0; Cl& o = C.cl[t]; if (!o.closed && o.client) { o.suspended = false; o.client->resume(); logEvent("resume_in_onWrite", c, t); } }
  }
  void onClosed() override {
    Cl& k = C.cl[c];
    if (k.closed) fail("C13/callback_after_remove", "onClosed on removed client %d", c);
    logEvent("onClosed", c);
    if (!k.failedIO && !simnet::peerClosed(k.fd)) fail("C13/closed_without_failure", "client %d got onClosed although no read/write failed and the peer is open", c);
    k.closed = true; C.srv->remove(*k.client); k.client = 0;
  }
};

static bool allDelivered() {
  for (int c = 0; c < C.nc; ++c) { Cl& k = C.cl[c]; if (k.closed || k.peerClosedByScript) continue; if (k.peerGot != k.accepted || k.backlog != 0 || k.expectOnWrite != 0) return false; }
  return true;
}

struct DriverCb : public Server::Timer::ICallback {
  void onActivated() override {
    if (C.finished) return;
    const RunSpec& s = *C.spec;
    if (C.waitTicks > 0) { C.waitTicks--; return; }
    while (C.pos < s.plan.size() && (s.plan[C.pos].task != 0 || (s.plan[C.pos].code >= P_READ && s.plan[C.pos].code <= P_CLOSE))) C.pos++;
    if (C.pos < s.plan.size()) {
      const Op& op = s.plan[C.pos++]; int c = (int)(op.a[0] % C.nc); Cl& k = C.cl[c];
      logEvent("script", op.code, c, op.a[1]);
      switch (op.code) {
      case S_WRITE: doWrite(c, op.a[2] % 8 == 6 ? (probe("empty_write"), (size_t)0) : (op.a[2] % 8 == 7 && bigWritesAllowed()) ? (size_t)(16385 + op.a[1] % 60000) /* a block the socket layer may hand over in several pieces */ : (size_t)(1 + op.a[1] % 3000), "timer"); break;
      case S_SUSPEND: if (!k.closed) { k.client->suspend(); k.suspended = true; if (!k.client->isSuspended()) fail("C13/isSuspended_wrong", "isSuspended() false after suspend()"); } break;
      case S_RESUME: if (!k.closed) { k.suspended = false; k.client->resume(); } break;
      case S_READMODE: k.readMode = (int)(op.a[1] % 2); break;
      case S_BUFQ: if (!k.closed) { uint64_t handed = simnet::stats(k.fd).bytes_out; if ((int64_t)k.client->getSendBufferSize() != (int64_t)k.accepted - (int64_t)handed) fail("C13/sendbuffersize_mismatch", "client %d: getSendBufferSize()=%zu, accepted-handed=%lld", c, (size_t)k.client->getSendBufferSize(), (long long)((int64_t)k.accepted - (int64_t)handed)); } break;
      case S_WAIT: C.waitTicks = (int)(op.a[1] % 20); break;
      case S_INWRITE: k.pendInWrite = (int)(1 + op.a[1] % 1500); break;
      case S_INREAD: k.pendInRead = (int)(1 + op.a[1] % 1500); break;
      case S_INSUSPEND: if (op.a[2] % 2) k.pendSuspendW = 1 + (int)(op.a[1] % C.nc); else k.pendSuspend = 1 + (int)(op.a[1] % C.nc); break;
      case S_INRESUME: if (op.a[2] % 2) k.pendResumeW = 1 + (int)(op.a[1] % C.nc); else k.pendResume = 1 + (int)(op.a[1] % C.nc); break;
      }
      return;
    }
    if (!C.scriptDone) { C.scriptDone = true; requestTail(); for (int c = 0; c < C.nc; ++c) { Cl& k = C.cl[c]; if (!k.closed && k.suspended) { k.suspended = false; k.client->resume(); } } logEvent("script_done"); }
    C.tailTicks++;
    if (allDelivered()) { C.finished = true; logEvent("all_delivered"); C.srv->interrupt(); }
  }
};

// peer of client c: scripted reads/sends on the far end, then drains until end-of-file
static void peerRecvCheck(int c, const unsigned char* b, ssize_t r) {
  NoPreempt np;   // oracle bookkeeping is atomic with respect to the server task
  Cl& k = C.cl[c];
  for (ssize_t i = 0; i < r; ++i) {
    uint64_t off = k.peerGot + i;
    if (off >= k.accepted + k.inflight) fail("C13/peer_got_unaccepted_bytes", "peer %d received byte #%llu but only %llu bytes were accepted by write()", c, (unsigned long long)off, (unsigned long long)k.accepted);
    if (b[i] != codeByte(c, off)) fail("C13/peer_stream_differs", "peer %d: byte at stream offset %llu is not the byte written there (loss, duplication or reordering)", c, (unsigned long long)off);
  }
  k.peerGot += r;
}
static void peerTask(void* a) {
  int c = (int)(intptr_t)a; Cl& k = C.cl[c]; const RunSpec& s = *C.spec;
  unsigned char buf[4096];
  for (size_t i = 0; i < s.plan.size(); ++i) {
    const Op& op = s.plan[i]; if (op.task != 1 + c) continue;
    if (C.scriptDone) break;
    switch (op.code) {
    case P_READ: { size_t n = 1 + op.a[1] % 2000; ssize_t r = recv(k.farFd, buf, n, 0); if (r > 0) peerRecvCheck(c, buf, r); else goto out; break; }
    case P_STALL: { static const int ms[] = {1, 3, 10, 40}; usleep(ms[op.a[1] % 4] * 1000); break; }
    case P_SEND: { size_t n = 1 + op.a[1] % 300; for (size_t q = 0; q < n; ++q) buf[q] = codeByte(100 + c, k.peerSent + q); fcntl(k.farFd, F_SETFL, O_NONBLOCK); ssize_t r = send(k.farFd, buf, n, MSG_NOSIGNAL); fcntl(k.farFd, F_SETFL, 0); if (r > 0) k.peerSent += r; break; }
    case P_CAP: { static const int caps[] = {1, 7, 64, 500, 4096, 16384, 32768}; simnet::setCapacity(k.farFd, bigWritesAllowed() ? caps[4 + op.a[1] % 3] : caps[op.a[1] % 4]); break; }
    case P_CLOSE: k.peerClosedByScript = true; logEvent("peer_close", c); k.far->close(); k.peerDone = true; return;
    }
  }
out:
  for (;;) { ssize_t r = recv(k.farFd, buf, sizeof buf, 0); if (r <= 0) break; peerRecvCheck(c, buf, r); }
  k.peerDone = true;
}

/* ballast: a few hundred idle pair clients registered before the scripted ones, so that the scripted clients are the 500th.. sockets of the server (the poll
   layer's and the server's tables are sized for 500 entries; whatever they do beyond that must not change the behaviour of a client) */
struct BallastCb : public Server::Client::ICallback { void onRead() override {} void onWrite() override {} void onClosed() override {} };
static Socket* ballastFar[520]; static int nballast = 0;
static void mainTask(void*) {
  const RunSpec& s = *C.spec;
  simnet::setDefaultCapacity((size_t)simdrv::knob(s, "cap", 65536));
  simnet::setSendHook(sendHook); simnet::setFailHook(failHook);
  C.srv = new Server;
  static ClientCb cbs[3]; static DriverCb dcb;
  { static BallastCb bcb; int want = (int)simdrv::knob(s, "ballast", 0); if (want > 520) want = 520; nballast = 0;
    for (int i = 0; i < want; ++i) { Socket* f = new Socket; if (!C.srv->pair(bcb, *f)) { delete f; break; } ballastFar[nballast++] = f; }
    if (nballast) probe("ballast_clients"); }
  for (int c = 0; c < C.nc; ++c) {
    Cl& k = C.cl[c]; cbs[c].c = c; k.cb = &cbs[c]; k.far = new Socket;
    k.client = C.srv->pair(*k.cb, *k.far);
    if (!k.client) fail("C13/pair_failed", "Server::pair failed");
    k.fd = (int)k.client->getSocket().getFileDescriptor(); k.farFd = (int)k.far->getFileDescriptor();
  }
  for (int c = 0; c < C.nc; ++c) C.cl[c].peerTask = spawn(peerTask, (void*)(intptr_t)c, "peer");
  C.driver = C.srv->time(1, dcb);
  C.srv->run();
  if (!C.finished) fail("C13/run_returned_without_interrupt", "Server::run returned although interrupt() was not called");
  // final delivery check happened in allDelivered(); now close down: removing the clients gives the peers end-of-file
  for (int c = 0; c < C.nc; ++c) { Cl& k = C.cl[c]; if (!k.closed && k.client) { C.srv->remove(*k.client); k.client = 0; k.closed = true; } }
  for (int c = 0; c < C.nc; ++c) joinTask(C.cl[c].peerTask);
  for (int c = 0; c < C.nc; ++c) { Cl& k = C.cl[c]; if (k.peerGot > k.accepted) fail("C13/peer_got_unaccepted_bytes", "peer %d got %llu bytes, %llu accepted", c, (unsigned long long)k.peerGot, (unsigned long long)k.accepted); delete k.far; k.far = 0; }
  C.srv->remove(*C.driver);
  delete C.srv; C.srv = 0;
  for (int i = 0; i < nballast; ++i) delete ballastFar[i]; nballast = 0;
}

static bool quiescence() { failSoft("C13/stuck", "server and peers all blocked with no timer pending"); return false; }
static void finalize() {
  if (!C.finished) return;
  memCheckLeaks("C13/memory_leaked");
  if (simnet::openFdCount() != 0) failSoft("C13/descriptor_leaked", "%d simulated descriptors still open after the server was destroyed", simnet::openFdCount());
}

static void generate(RunSpec& s, int tier) {
  uint64_t z = s.seed;
  auto r = [&](uint64_t n) { z += 0x9e3779b97f4a7c15ULL; uint64_t x = z; x = (x ^ (x >> 30)) * 0xbf58476d1ce4e5b9ULL; x = (x ^ (x >> 27)) * 0x94d049bb133111ebULL; x ^= x >> 31; return n ? x % n : x; };
  int nc = 1 + (int)r(3);
  bool readFocus = r(4) == 0; if (readFocus && nc < 2) nc = 2 + (int)r(2);     /* a quarter of the plans stress the read side: peers mostly send, the script mostly suspends/resumes (also from inside onRead) */
  s.knobs["clients"] = nc; s.knobs["read_focus"] = readFocus;
  bool faulty = r(4) != 0; s.knobs["faulty"] = faulty;
  static const int caps[] = {1, 5, 32, 200, 1024, 2048, 65536, 16384, 32768, 49152}; s.knobs["cap"] = faulty ? caps[r(10)] : 1 << 20;
  static const int pct[] = {0, 5, 20, 50}; s.knobs["send_fault_pct"] = faulty ? pct[r(4)] : 0; s.knobs["recv_fault_pct"] = faulty ? pct[r(4)] : 0; s.knobs["epoll_fault_pct"] = faulty ? pct[r(4)] : 0; s.knobs["eintr_pct"] = faulty && r(3) == 0 ? 5 : 0;
  s.knobs["sync_switch_log2"] = 1 + r(4);
  s.knobs["ballast"] = r(30) == 0 ? 496 + (int)r(8) : 0;   /* the scripted clients become the 497th..506th sockets of the server */
  int ns = 4 + (int)r(20);
  for (int i = 0; i < ns; ++i) {
    Op o; o.task = 0; o.a[0] = (int64_t)r(nc); o.a[1] = (int64_t)r(100000); o.a[2] = o.a[3] = 0;
    uint64_t k = r(100);
    o.code = k < 50 ? S_WRITE : k < 58 ? S_SUSPEND : k < 66 ? S_RESUME : k < 70 ? S_READMODE : k < 76 ? S_BUFQ : k < 84 ? S_WAIT : k < 91 ? S_INWRITE : k < 95 ? S_INREAD : k < 98 ? S_INSUSPEND : S_INRESUME;
    if (readFocus && r(10) < 6) { uint64_t q = r(10); o.code = q < 4 ? S_INSUSPEND : q < 6 ? S_INRESUME : q < 8 ? S_RESUME : q < 9 ? S_SUSPEND : S_WAIT; }
    if (o.code == S_WRITE && r(3) == 0) o.a[1] = r(40);
    if (o.code == S_WRITE) o.a[2] = (int64_t)r(8);
    if (o.code == S_INSUSPEND || o.code == S_INRESUME) { o.a[2] = (int64_t)r(2); if (o.a[2] && r(2)) o.a[1] = o.a[0]; }   /* inside onRead or inside onWrite; in onWrite often on the client itself */
    s.plan.push_back(o);
  }
  for (int c = 0; c < nc; ++c) {
    int np = (int)r(14); if (readFocus) np += 4;
    for (int i = 0; i < np; ++i) {
      Op o; o.task = 1 + c; o.a[0] = c; o.a[1] = (int64_t)r(100000); o.a[2] = o.a[3] = 0;
      uint64_t k = r(100);
      o.code = k < 45 ? P_READ : k < 65 ? P_STALL : k < 82 ? P_SEND : k < 96 ? P_CAP : P_CLOSE;
      if (o.code == P_CLOSE && r(3)) o.code = P_READ;
      if (readFocus && r(10) < 6) { o.code = P_SEND; }
      s.plan.push_back(o);
    }
  }
  (void)tier;
}

static Result execute(const RunSpec& s, bool keepLog) {
  Config cfg;
  cfg.mem_switch_log2 = 255; cfg.sync_switch_log2 = (int)simdrv::knob(s, "sync_switch_log2", 2);
  cfg.rate[K_SEND] = simdrv::knob(s, "send_fault_pct", 0) / 100.0; cfg.rate[K_RECV] = simdrv::knob(s, "recv_fault_pct", 0) / 100.0; cfg.rate[K_EPOLL] = simdrv::knob(s, "epoll_fault_pct", 0) / 100.0; cfg.rate[K_EINTR] = simdrv::knob(s, "eintr_pct", 0) / 100.0;
  cfg.step_budget = 3000000; cfg.tail_budget_min = 3000000; cfg.tail_factor = 10; cfg.keep_log = keepLog;
  memset(&C, 0, sizeof C); C.spec = &s; C.nc = (int)simdrv::knob(s, "clients", 1); if (C.nc < 1) C.nc = 1; if (C.nc > 3) C.nc = 3;
  Hooks h; h.main_fn = mainTask; h.quiescence = quiescence; h.finalize = finalize;
  Result r = run(s, cfg, h);
  if (r.budget_exhausted && !r.violated && C.scriptDone && !C.finished) {
    r.violated = true; r.cls = "C13/delivery_incomplete";
    char b[300]; snprintf(b, sizeof b, "quiet tail ended (no faults, peers draining) but accepted bytes were not all delivered / backlog not drained / onWrite missing: ");
    r.detail = b;
    for (int c = 0; c < C.nc; ++c) { Cl& k = C.cl[c]; char q[160]; snprintf(q, sizeof q, "[c%d accepted=%llu peerGot=%llu backlog=%lld expectOnWrite=%d closed=%d] ", c, (unsigned long long)k.accepted, (unsigned long long)k.peerGot, (long long)k.backlog, k.expectOnWrite, k.closed); r.detail += q; }
  }
  r.probes["server_send_calls"] = decisionCount(1, K_SEND);
  r.probes[simdrv::knob(s, "faulty", 0) ? "config_fault_injecting" : "config_fault_free"]++;
  return r;
}

// single-fault sweep: every send call of the fault-free default schedule meets every outcome class once
static void extra(const RunSpec& s, int tier, void (*cb)(const RunSpec&, const Result&, void*), void* ctx) {
  if ((s.seed >> 7) % 4 != 0) return;
  RunSpec base = s; base.replay = true; base.decisions.clear(); base.preemptions.clear();
  base.knobs["send_fault_pct"] = 0; base.knobs["recv_fault_pct"] = 0; base.knobs["epoll_fault_pct"] = 0; base.knobs["eintr_pct"] = 0;
  Result r0 = execute(base, false);
  cb(base, r0, ctx);
  if (r0.violated) return;
  // number of send calls issued by the server task (task 1) = K_SEND decision points
  uint64_t nsend = r0.probes.count("server_send_calls") ? r0.probes["server_send_calls"] : 0;
  if (nsend > 40) nsend = 40;
  for (uint64_t i = 0; i < nsend; ++i) for (int c = 1; c <= 4; ++c) {
    RunSpec v = base; v.decisions.push_back(Decision{1, K_SEND, (int)i, c});
    Result r = execute(v, false);
    r.probes["single_fault_sweep_runs"]++;
    cb(v, r, ctx);
    if (r.violated) return;
  }
  (void)tier;
}

static simdrv::Harness H = {"C13", "c13_serverwrite", generate, execute, opName, nullptr, extra, "", ""};
int main(int argc, char** argv) { return simdrv::main(argc, argv, H); }
