// C14: the Server event loop honours timers, removals, readiness and interrupts.
// Real code: src/Socket/Server.cpp, src/Socket/Socket.cpp (epoll Poll), MultiMap/PoolList/HashSet/HashMap, Future.cpp (resolver),
// Signal/Mutex/Thread/Time.  Stub: simnet (loopback TCP, unix pairs, epoll, eventfd), DNS, clock, threads.
#include <Future.cpp>          // access to the private worker pool (resolver futures): reset between runs
#include <Error.cpp>           // access to the process-lifetime per-thread error-string map: cleared between runs
#include <nstd/Socket/Server.hpp>
#include <nstd/Socket/Socket.hpp>
#include <nstd/Time.hpp>
#include <nstd/String.hpp>
#include <nstd/Future.hpp>
#include <nstd/Signal.hpp>
#include "sim.hpp"
#include "driver.hpp"
#include "net.hpp"
#include <stdio.h>
#include <string.h>
#include <unistd.h>
#include <fcntl.h>
#include <sys/socket.h>
#include <netinet/in.h>
#include <arpa/inet.h>

using namespace sim;
namespace sim { void setProcessorCount(int n); }

enum Code { T_CREATE = 1, T_REMOVE, L_LISTEN, L_REMOVE, E_ADDR, E_HOST, E_REMOVE, C_PAIR, C_REMOVE, C_WRITE, C_SUSPEND, C_RESUME, S_INTERRUPT, S_WAIT, S_ACCEPTPOLICY, S_QUIET,
            R_CONNECT, R_LISTEN, R_STALL, I_INTERRUPT, I_STALL, C_CLOSEFAR, C_WRITEALL, C_CROWD, C_CROWDGONE, C_DUPFD, C_DOOMED, CODE_N };
static const char* codeName[] = {"?", "timer.create", "timer.remove", "listen", "listener.remove", "connect.addr", "connect.host", "establisher.remove", "pair", "client.remove", "client.write", "client.suspend", "client.resume",
  "interrupt(self)", "wait", "accept.policy", "quiet_period", "remote.connect", "remote.listen", "remote.stall", "interrupter.interrupt", "interrupter.stall", "client.peer_closes", "client.write_all", "crowd.create", "crowd.remove_all", "client.descriptor_duplicated", "pair.backlog_then_peer_closes"};
static const char* opName(int c) { return (c > 0 && c < CODE_N) ? codeName[c] : "?"; }

enum Kind { K_TIMER, K_LISTENER, K_ESTAB, K_CLIENT, K_DRIVER };
static const char* kindNames[] = {"timer", "listener", "establisher", "client", "driver"};
struct Ent;
struct TimerCb : public Server::Timer::ICallback { Ent* e; void onActivated() override; };
struct ListenerCb : public Server::Listener::ICallback { Ent* e; Server::Client::ICallback* onAccepted(Server::Client& client, uint32 ip, uint16 port) override; };
struct EstabCb : public Server::Establisher::ICallback { Ent* e; Server::Client::ICallback* onConnected(Server::Client& client) override; void onAbolished() override; };
struct ClientCb : public Server::Client::ICallback { Ent* e; void onRead() override; void onWrite() override; void onClosed() override; };

struct Ent {   // one per created object; never re-used within a run
  int kind, id, slot; bool removed, alive; void* handle;
  TimerCb tcb; ListenerCb lcb; EstabCb ecb; ClientCb ccb;
  // timer
  int64_t t0lo, t0hi, interval; long activations;
  // establisher
  int resolved; bool byHost; int64_t createdAt;
  // client
  bool suspended, failedIO, closedCb; int fd; Socket* far; int64_t backlog; uint64_t accepted; uint64_t readBytes; uint64_t readySince;   /* poll round (+1) at which the driver first saw input pending on this registered client; 0 = none */
  // listener
  int port; int acceptPolicy; int connectAction;   /* establisher: what its completion callbacks do (0 nothing, 1 write to the new client, 2 suspend it, 3 reconnect from onAbolished) */
};
static const int MAXENT = 320;
struct Pending { int code; int slot; int64_t arg; };
struct Ctx {
  const RunSpec* spec; Server* srv; Ent ent[MAXENT]; int nent;
  int dups[8]; int ndups;   /* duplicates of client descriptors held by "somebody else" until the end of the run */
  Ent* crowd[96]; int ncrowd;   /* a crowd of extra pair clients: enough registered sockets for the poll layer's hash table (500 buckets) to have shared buckets */
  Ent* timerSlot[8];   /* with the driver and the loop's default timer up to ten queue entries: deep enough for every re-balancing case of the due-time tree */ Ent* listenerSlot[2]; Ent* estabSlot[3]; Ent* clientSlot[6];
  size_t pos; int waitTicks; bool scriptDone, finishing, stopped; Ent* driver;
  std::vector<Pending>* pendOwn; std::vector<Pending>* pendAny;
  uint64_t seq; uint64_t lastReturnSeq; int returns; int interruptsInvoked; uint64_t lastInterruptDoneSeq; int interruptsCompleted; bool inRun; uint64_t runStartSeq[2];
  int64_t lastDue;
  int peersTotal, peersDone; bool stopPeers;
  int unresolvedEstab;
  int tailTicks;
  bool quiet, quietIntDone; int64_t quietDoneNs; int quietDelayUs; Signal* quietSig; bool wakerStop;
};
static Ctx C;

static Ent* newEnt(int kind, int slot) {
  if (C.nent >= MAXENT) return 0;
  Ent* e = &C.ent[C.nent]; e->kind = kind; e->id = C.nent++; e->slot = slot; e->removed = false; e->alive = true; e->handle = 0;
  new (&e->tcb) TimerCb; new (&e->lcb) ListenerCb; new (&e->ecb) EstabCb; new (&e->ccb) ClientCb; e->tcb.e = e; e->lcb.e = e; e->ecb.e = e; e->ccb.e = e;
  e->t0lo = e->t0hi = e->interval = 0; e->activations = 0; e->resolved = 0; e->byHost = false; e->createdAt = 0; e->suspended = e->failedIO = e->closedCb = false; e->fd = -1; e->far = 0; e->backlog = 0; e->accepted = 0; e->readBytes = 0; e->port = 0; e->acceptPolicy = 0; e->connectAction = 0;
  return e;
}
static void checkLive(Ent* e, const char* cb) {
  if (e->removed) { char cls[96]; snprintf(cls, sizeof cls, "C14/callback_after_remove/%s.%s", kindNames[e->kind], cb); fail(cls, "%s on %s #%d (slot %d) after remove() had returned", cb, kindNames[e->kind], e->id, e->slot); }
  logEvent(cb, e->kind, e->id);
}
static void removeEnt(Ent* e) {
  if (!e || e->removed || !e->alive) return;
  logEvent("remove", e->kind, e->id);
  switch (e->kind) {
  case K_TIMER: C.srv->remove(*(Server::Timer*)e->handle); for (int i = 0; i < 8; ++i) if (C.timerSlot[i] == e) C.timerSlot[i] = 0; break;
  case K_LISTENER: C.srv->remove(*(Server::Listener*)e->handle); for (int i = 0; i < 2; ++i) if (C.listenerSlot[i] == e) C.listenerSlot[i] = 0; break;
  case K_ESTAB: if (!e->resolved) C.unresolvedEstab--; C.srv->remove(*(Server::Establisher*)e->handle); for (int i = 0; i < 3; ++i) if (C.estabSlot[i] == e) C.estabSlot[i] = 0; break;
  case K_CLIENT: C.srv->remove(*(Server::Client*)e->handle); for (int i = 0; i < 6; ++i) if (C.clientSlot[i] == e) C.clientSlot[i] = 0; if (e->far) { delete e->far; e->far = 0; } break;
  }
  e->removed = true;
}
static int freeClientSlot() { for (int i = 0; i < 6; ++i) if (!C.clientSlot[i]) return i; return -1; }

static void execOp(int code, int slot, int64_t arg, Ent* self);
static void runPending(Ent* self) {
  // operations scheduled to run "inside the own callback of entity X" or "inside the next callback of any entity"
  for (int pass = 0; pass < 2; ++pass) {
    std::vector<Pending>& v = pass ? *C.pendAny : *C.pendOwn;
    for (size_t i = 0; i < v.size();) {
      Pending p = v[i];
      bool mine = pass ? true : ((p.code == T_REMOVE && self->kind == K_TIMER && C.timerSlot[p.slot % 8] == self) || (p.code == C_REMOVE && self->kind == K_CLIENT && C.clientSlot[p.slot % 6] == self) ||
                                 (p.code == E_REMOVE && self->kind == K_ESTAB && C.estabSlot[p.slot % 3] == self) || (p.code == L_REMOVE && self->kind == K_LISTENER && C.listenerSlot[p.slot % 2] == self));
      if (!mine) { ++i; continue; }
      { Host h; v.erase(v.begin() + i); }
      probe(pass ? "op_in_other_callback" : "remove_in_own_callback");
      execOp(p.code, p.slot, p.arg, self);
      if (self->removed) return;
    }
  }
}

// ---------------------------------------------------------------- callbacks
void TimerCb::onActivated() {
  checkLive(e, "onActivated");
  int64_t now = Time::ticks();
  if (e->kind == K_DRIVER) {
    e->activations++;
    // catch-up rule: every activation of a live timer that was due strictly before this driver activation must have happened
    int64_t D = e->t0lo + e->activations * e->interval;
    for (int i = 0; i < 8; ++i) { Ent* t = C.timerSlot[i]; if (!t || t->removed) continue; int64_t must = (D - 1 - t->t0hi) / t->interval; if (D - 1 - t->t0hi >= 0 && t->activations < must) fail("C14/timer_missed", "timer #%d (interval %lld, created at tick %lld) was activated %ld times although %lld activations were due before tick %lld", t->id, (long long)t->interval, (long long)t->t0hi, t->activations, (long long)must, (long long)D); }
    execOp(0, 0, 0, e); return;
  }
  e->activations++;
  int64_t due = e->t0lo + e->activations * e->interval;           // earliest possible due time of this activation
  if (now < due) fail("C14/timer_early", "timer #%d (interval %lld) activation %ld at tick %lld, not due before %lld", e->id, (long long)e->interval, e->activations, (long long)now, (long long)due);
  if (e->activations > (now - e->t0lo) / e->interval) fail("C14/timer_too_often", "timer #%d activated %ld times within %lld ms (interval %lld)", e->id, e->activations, (long long)(now - e->t0lo), (long long)e->interval);
  int64_t dueHi = e->t0hi + e->activations * e->interval;
  if (dueHi < C.lastDue - 0) { /* order check uses the exact due time when t0 is unambiguous */ if (e->t0lo == e->t0hi) fail("C14/timer_order", "timer #%d activation due at %lld ran after an activation due at %lld", e->id, (long long)dueHi, (long long)C.lastDue); }
  if (e->t0lo == e->t0hi && dueHi > C.lastDue) C.lastDue = dueHi;
  runPending(e);
}
Server::Client::ICallback* ListenerCb::onAccepted(Server::Client& client, uint32 ip, uint16 port) {
  checkLive(e, "onAccepted");
  int slot = freeClientSlot();
  int policy = e->acceptPolicy;
  Ent* c = (slot >= 0 && policy != 1) ? newEnt(K_CLIENT, slot) : 0;
  if (!c) { probe("accept_rejected"); runPending(e); return 0; }
  c->handle = &client; c->fd = (int)client.getSocket().getFileDescriptor();
  if (policy == 2) { probe("remove_in_onAccepted_then_keep"); C.srv->remove(client); c->removed = true; runPending(e); return &c->ccb; }
  if (policy == 3) { probe("remove_in_onAccepted_then_null"); C.srv->remove(client); c->removed = true; runPending(e); return 0; }
  C.clientSlot[slot] = c;
  /* a greeting written, or flow control applied, from inside onAccepted: the client's own poll registration changes before the callback returns */
  if (policy == 4) { probe("write_in_onAccepted"); execOp(C_WRITE, slot, 1 + e->port * 977 % 1900, e); }
  if (policy == 5 && !C.scriptDone) { probe("suspend_in_onAccepted"); execOp(C_SUSPEND, slot, 0, e); }
  runPending(e);
  return &c->ccb;
}
Server::Client::ICallback* EstabCb::onConnected(Server::Client& client) {
  checkLive(e, "onConnected");
  if (e->resolved) fail("C14/establisher_resolved_twice", "establisher #%d got a second completion callback", e->id);
  e->resolved = 1; C.unresolvedEstab--;
  int slot = freeClientSlot(); Ent* c = slot >= 0 ? newEnt(K_CLIENT, slot) : 0;
  if (!c) { runPending(e); return 0; }
  c->handle = &client; c->fd = (int)client.getSocket().getFileDescriptor(); C.clientSlot[slot] = c;
  if (e->connectAction == 1) { probe("write_in_onConnected"); execOp(C_WRITE, slot, 1 + e->id * 977 % 1900, e); }
  if (e->connectAction == 2 && !C.scriptDone) { probe("suspend_in_onConnected"); execOp(C_SUSPEND, slot, 0, e); }
  runPending(e);
  return &c->ccb;
}
void EstabCb::onAbolished() {
  checkLive(e, "onAbolished");
  if (e->resolved) fail("C14/establisher_resolved_twice", "establisher #%d got a second completion callback", e->id);
  e->resolved = 2; C.unresolvedEstab--;
  runPending(e);
  if (e->connectAction == 3 && !e->removed && !C.scriptDone) {   /* the usual reconnect: drop the failed establisher and dial again from inside its onAbolished */
    int sl = e->slot; int port = e->port; probe("reconnect_in_onAbolished");
    removeEnt(e);
    execOp(E_ADDR, sl, port, 0);
  }
}
void ClientCb::onRead() {
  checkLive(e, "onRead");
  if (e->suspended) fail("C14/onRead_while_suspended", "client #%d got onRead while suspended (not registered for reading)", e->id);
  e->readySince = 0;
  byte buf[512]; usize got = 0;
  Server::Client* cl = (Server::Client*)e->handle;
  if (cl->read(buf, sizeof buf, got)) e->readBytes += got;
  runPending(e);
}
void ClientCb::onWrite() {
  checkLive(e, "onWrite");
  Server::Client* cl = (Server::Client*)e->handle;
  if (cl->getSendBufferSize() != 0) fail("C14/onWrite_with_backlog", "client #%d got onWrite with %zu bytes still buffered", e->id, (size_t)cl->getSendBufferSize());
  runPending(e);
}
void ClientCb::onClosed() {
  checkLive(e, "onClosed");
  if (!e->failedIO && !simnet::peerClosed(e->fd)) fail("C14/closed_without_failure", "client #%d got onClosed although no read/write failed and its peer is open", e->id);
  e->closedCb = true;
  runPending(e);          /* removals and other operations also happen from inside onClosed */
  if (e->removed) return;
  int partner = (int)simdrv::knob(*C.spec, "closed_removes_partner", 0);
  if (partner) for (int d = 1; d < 6; ++d) { Ent* o = C.clientSlot[(e->slot + d) % 6]; if (o && o != e && !o->removed) { if (o->failedIO) probe("partner_removed_while_awaiting_onClosed"); else probe("partner_removed_in_onClosed"); removeEnt(o); if (partner == 1) break; } }
  removeEnt(e);
}
static void failHook(int fd, bool isSend, int err) { for (int i = 0; i < C.nent; ++i) if (C.ent[i].kind == K_CLIENT && C.ent[i].fd == fd && !C.ent[i].removed) C.ent[i].failedIO = true; }

// ---------------------------------------------------------------- script execution (server thread only)
static bool allSettled() {
  if (C.unresolvedEstab > 0) return false;
  for (int i = 0; i < C.nent; ++i) { Ent& e = C.ent[i];
    if (e.kind == K_CLIENT && !e.removed && e.alive) {
      if (e.failedIO) return false;                                                    // a failed read/write must be followed by onClosed
      if (!e.suspended && simnet::queued(e.fd) > 0) return false;                      // readable and registered for reading: must be dispatched
      if (((Server::Client*)e.handle)->getSendBufferSize() > 0 && simnet::peerSpace(e.fd) > 0) return false;   // writable with backlog: must be served
      if (((Server::Client*)e.handle)->getSendBufferSize() > 0 && simnet::peerClosed(e.fd)) return false;      // backlog towards a peer that is gone: the send must be attempted, fail, and be followed by onClosed
    }
    if (e.kind == K_LISTENER && !e.removed && e.alive && simnet::acceptQueueLen((int)((Socket*)e.handle)->getFileDescriptor()) > 0) return false;   // acceptable: must be served
  }
  return C.peersDone >= C.peersTotal;
}
static int burstDepth = 0;
/* Bounded liveness inside the script: a pair client that is registered for reading and has input pending is dispatched within a few poll rounds - whatever else
   is ready, even permanently (a suspended client whose peer hung up is reported by every epoll_wait).  Only judged when epoll_wait reports complete ready sets. */
static void checkStarved() {
  if (simdrv::knob(*C.spec, "epoll_fault_pct", 0) != 0 || burstDepth > 0) return;
  int starved = -1; uint64_t rounds = 0;
  { NoPreempt np;   /* oracle bookkeeping: not part of the simulated program (no yield points, no steps) */
  uint64_t round = simnet::epollWaitCalls();
  for (int i = 0; i < C.nent; ++i) { Ent& e = C.ent[i];
    if (e.kind != K_CLIENT || e.removed || !e.alive || !e.handle || !e.far) continue;
    bool waiting = !e.suspended && !e.failedIO && !e.closedCb && simnet::queued(e.fd) > 0;
    if (!waiting) { e.readySince = 0; continue; }
    if (!e.readySince) e.readySince = round + 1;
    else if (round + 1 - e.readySince > 300 && starved < 0) { starved = e.id; rounds = round + 1 - e.readySince; }
  } }
  if (starved >= 0) fail("C14/readable_client_starved", "client #%d is registered for reading and has had input pending for %llu poll rounds without an onRead", starved, (unsigned long long)rounds);
}
static void execOp(int code, int slot, int64_t arg, Ent* self) {
  if (code == 0) {   // driver tick: next script operation
    if (C.stopped) return;
    checkStarved();
    if (C.waitTicks > 0) { C.waitTicks--; return; }
    const RunSpec& s = *C.spec;
    while (C.pos < s.plan.size() && s.plan[C.pos].task != 0) C.pos++;
    if (C.pos >= s.plan.size()) {
      if (burstDepth > 0) return;   /* a burst tick never ends the script: the operation that started the burst has not been executed yet (it would run after the tail's clean-up) */
      if (!C.scriptDone) { C.scriptDone = true; C.stopPeers = true; requestTail(); logEvent("script_done"); { Host h; C.pendOwn->clear(); C.pendAny->clear(); } /* nothing new happens in the quiet tail */ for (int i = 0; i < 6; ++i) if (C.clientSlot[i] && C.clientSlot[i]->suspended) { Ent* q = C.clientSlot[i]; if (((Server::Client*)q->handle)->getSendBufferSize() > 0 && simnet::peerClosed(q->fd)) { probe("tail_suspended_client_with_backlog_and_dead_peer"); continue; } /* stays suspended: the pending data cannot be sent any more, and that failure alone must bring onClosed */ q->suspended = false; ((Server::Client*)q->handle)->resume(); } }
      C.tailTicks++;
      if (allSettled() && !C.finishing) { C.finishing = true; logEvent("settled"); { NoPreempt np; C.interruptsInvoked++; } C.srv->interrupt(); { NoPreempt np; C.interruptsCompleted++; C.lastInterruptDoneSeq = ++C.seq; } }
      return;
    }
    const Op& op = s.plan[C.pos++];
    // burst: several script operations in one driver activation, so that several sockets become ready within one poll round
    int burst = (int)simdrv::knob(s, "burst", 1); if (self == C.driver && burst > 1 && (op.a[2] % 2) == 0) { if (burstDepth == 0) { burstDepth = 1; for (int b = 1; b < burst && C.pos < s.plan.size() && !C.stopped && C.driver == self && !self->removed; ++b) { execOp(0, 0, 0, self); } burstDepth = 0; } }
    int where = (int)(op.a[3] % 4);
    bool deferrable = op.code == T_REMOVE || op.code == C_REMOVE || op.code == E_REMOVE || op.code == L_REMOVE;
    if (deferrable && where == 1) { Host h; C.pendOwn->push_back(Pending{op.code, (int)op.a[0], op.a[1]}); return; }
    if (where == 2 && op.code != S_WAIT) { Host h; C.pendAny->push_back(Pending{op.code, (int)op.a[0], op.a[1]}); return; }
    execOp(op.code, (int)op.a[0], op.a[1], self);
    return;
  }
  logEvent("script", code, slot, arg);
  switch (code) {
  case T_CREATE: { int sl = slot % 8; if (C.timerSlot[sl]) break; static const int iv[] = {1, 2, 3, 5, 10, 50, 300, 5000}; Ent* e = newEnt(K_TIMER, sl); if (!e) break; e->interval = iv[arg % 8];
    int64_t lo = Time::ticks(); Server::Timer* t = C.srv->time(e->interval, e->tcb); int64_t hi = Time::ticks(); e->t0lo = lo; e->t0hi = hi; e->handle = t; C.timerSlot[sl] = e;
    for (int i = 0; i < 8; ++i) if (i != sl && C.timerSlot[i] && C.timerSlot[i]->t0lo + C.timerSlot[i]->interval * (C.timerSlot[i]->activations + 1) == lo + e->interval) probe("timer_equal_due"); break; }
  case T_REMOVE: { Ent* e = C.timerSlot[slot % 8]; if (e) { if (e == self) probe("timer_removed_in_own_callback"); else if (self && self->kind == K_TIMER) probe("timer_removed_by_other_timer"); removeEnt(e); } break; }
  case L_LISTEN: { int sl = slot % 2; if (C.listenerSlot[sl]) break; Ent* e = newEnt(K_LISTENER, sl); if (!e) break; e->port = 5000 + sl; e->acceptPolicy = (int)(arg % 6); if (arg % 7 < 4) e->acceptPolicy = 0;
    Server::Listener* l = C.srv->listen(Socket::loopbackAddress, (uint16)e->port, e->lcb); if (!l) { e->alive = false; e->removed = true; probe("listen_failed"); break; } e->handle = l; C.listenerSlot[sl] = e; break; }
  case L_REMOVE: removeEnt(C.listenerSlot[slot % 2]); break;
  case S_ACCEPTPOLICY: if (C.listenerSlot[slot % 2]) C.listenerSlot[slot % 2]->acceptPolicy = (int)(arg % 6); break;
  case E_ADDR: case E_HOST: { int sl = slot % 3; if (C.estabSlot[sl]) break; Ent* e = newEnt(K_ESTAB, sl); if (!e) break; uint16 port = (uint16)(6000 + arg % 3); e->createdAt = Time::ticks(); e->port = (int)(arg % 3) + 1 /* re-dial another port next time */; e->connectAction = (int)((arg / 12) % 5 < 4 ? (arg / 12) % 5 : 0);
    Server::Establisher* es;
    if (code == E_ADDR) es = C.srv->connect(Socket::loopbackAddress, port, e->ecb);
    else { e->byHost = true; es = C.srv->connect((arg / 3) % 4 == 0 ? String("bad.test") : String("ok.test"), port, e->ecb); }
    if (!es) { e->alive = false; e->removed = true; probe("connect_failed_immediately"); break; } e->handle = es; C.estabSlot[sl] = e; C.unresolvedEstab++; break; }
  case E_REMOVE: { Ent* e = C.estabSlot[slot % 3]; if (e) { if (!e->resolved) probe("establisher_removed_unresolved"); removeEnt(e); } break; }
  case C_PAIR: { int reps = (arg % 7 == 3) ? 3 : 1;   // sometimes several readable clients at once: several sockets ready in one poll round
    for (int rep = 0; rep < reps; ++rep) {
      int sl = freeClientSlot(); if (sl < 0) break; Ent* e = newEnt(K_CLIENT, sl); if (!e) break; e->far = new Socket; Server::Client* c = C.srv->pair(e->ccb, *e->far); if (!c) { e->alive = false; e->removed = true; break; }
      e->handle = c; e->fd = (int)c->getSocket().getFileDescriptor(); C.clientSlot[sl] = e;
      if (arg % 3 == 0 || reps > 1) { unsigned char b[64]; memset(b, 7, sizeof b); fcntl((int)e->far->getFileDescriptor(), F_SETFL, O_NONBLOCK); (void)!send((int)e->far->getFileDescriptor(), b, 1 + arg % 60, MSG_NOSIGNAL); }   // far end sends something
      if (arg % 5 == 1 && reps == 1) { e->far->close(); probe("pair_far_end_closed"); }
    }
    if (reps > 1) probe("pair_burst");
    break; }
  case C_REMOVE: { Ent* e = C.clientSlot[slot % 6]; if (e) { if (simnet::queued(e->fd) > 0) probe("client_removed_with_pending_data"); removeEnt(e); } break; }
  case C_WRITE: { Ent* e = C.clientSlot[slot % 6]; if (!e) break; static byte buf[2048]; usize n = 1 + (usize)(arg % 2000); usize post = 0; if (((Server::Client*)e->handle)->write(buf, n, &post)) e->accepted += n; else e->failedIO = true; break; }
  case C_CLOSEFAR: { Ent* e = C.clientSlot[slot % 6]; if (e && e->far && e->far->isOpen()) { e->far->close(); probe("pair_far_end_closed"); } break; }
  case C_WRITEALL: { /* heartbeat: one callback writes to every client; several of them may fail at once */
    static byte hb[256]; int failedNow = 0;
    for (int i = 0; i < 6; ++i) { Ent* e = C.clientSlot[i]; if (!e || e->removed) continue; usize n = 1 + (usize)(arg % 200); usize post = 0; if (((Server::Client*)e->handle)->write(hb, n, &post)) e->accepted += n; else { e->failedIO = true; failedNow++; } }
    if (failedNow >= 2) probe("several_clients_failed_in_one_callback");
    break; }
  case C_DOOMED: { /* a client with unsent data whose peer goes away: pair, write until data stays behind, optionally suspend, the far end closes (now, or later through client.peer_closes) */
    int sl = freeClientSlot(); if (sl < 0) break; Ent* e = newEnt(K_CLIENT, sl); if (!e) break; e->far = new Socket; Server::Client* c = C.srv->pair(e->ccb, *e->far); if (!c) { e->alive = false; e->removed = true; break; }
    e->handle = c; e->fd = (int)c->getSocket().getFileDescriptor(); C.clientSlot[sl] = e;
    bool noData = (arg / 6) % 8 == 0;   /* no unsent data: suspended with a dead peer, the client is reported by every poll round until somebody resumes it */
    static byte buf[2048]; for (int i = 0; i < 40 && !noData && c->getSendBufferSize() == 0 && !e->failedIO; ++i) { usize post = 0; usize n = 1 + (usize)((arg + i * 131) % 2048); if (c->write(buf, n, &post)) e->accepted += n; else e->failedIO = true; }
    if (c->getSendBufferSize() > 0) probe("doomed_client_has_backlog");
    if ((arg / 2) % 3 != 0) { c->suspend(); e->suspended = true; }
    if (arg % 2 == 0) { e->far->close(); probe("pair_far_end_closed"); }
    break; }
  case C_DUPFD: { /* somebody else holds a duplicate of the client's descriptor (a dup(), a child forked meanwhile): closing the client's own number does not end the open file description */
    Ent* e = C.clientSlot[slot % 6]; if (e && !e->removed && C.ndups < 8) { int d = 700000 + C.ndups; if (dup2(e->fd, d) == d) { C.dups[C.ndups++] = d; probe("client_descriptor_duplicated"); } } break; }
  case C_CROWD: { /* many clients at once */
    int want = 40 + (int)(arg % 50);
    while (C.ncrowd < want && C.ncrowd < 96) { Ent* e = newEnt(K_CLIENT, -1); if (!e) break; e->far = new Socket; Server::Client* c = C.srv->pair(e->ccb, *e->far); if (!c) { e->alive = false; e->removed = true; break; }
      e->handle = c; e->fd = (int)c->getSocket().getFileDescriptor(); C.crowd[C.ncrowd++] = e; }
    { Host h; int shared = 0; for (int i = 0; i < C.ncrowd; ++i) for (int j = 0; j < i; ++j) if (!C.crowd[i]->removed && !C.crowd[j]->removed && hash((const void*)&((Server::Client*)C.crowd[i]->handle)->getSocket()) % 500 == hash((const void*)&((Server::Client*)C.crowd[j]->handle)->getSocket()) % 500) shared++; if (shared) probe("crowd_poll_bucket_shared"); }
    probe("crowd_created"); break; }
  case C_CROWDGONE: { /* remove them all, in a seeded order */
    uint64_t z = (uint64_t)arg * 0x9e3779b97f4a7c15ULL + 1;
    for (int left = C.ncrowd; left > 0; --left) { z ^= z >> 29; z *= 0xbf58476d1ce4e5b9ULL; z ^= z >> 32; int k = (int)(z % (uint64_t)left); Ent* e = C.crowd[k]; C.crowd[k] = C.crowd[left - 1]; if (e && !e->removed) removeEnt(e); }
    C.ncrowd = 0; break; }
  case C_SUSPEND: { Ent* e = C.clientSlot[slot % 6]; if (e) { ((Server::Client*)e->handle)->suspend(); e->suspended = true; } break; }
  case C_RESUME: { Ent* e = C.clientSlot[slot % 6]; if (e) { e->suspended = false; ((Server::Client*)e->handle)->resume(); } break; }
  case S_INTERRUPT: { NoPreempt np; C.interruptsInvoked++; } C.srv->interrupt(); { NoPreempt np; C.interruptsCompleted++; C.lastInterruptDoneSeq = ++C.seq; } probe("interrupt_from_callback"); break;   /* (oracle counters are shared with the interrupter and waker tasks: updated atomically) */
  case S_WAIT: { static const int w[] = {0, 1, 3, 10, 60, 400}; C.waitTicks = w[arg % 6]; break; }
  case S_QUIET: // the driver timer removes itself: the loop now sleeps in the poll layer until a waker thread interrupts it
    if (self == C.driver && !C.quiet && !C.scriptDone) { static const int us[] = {0, 1, 5, 20, 100, 1000}; C.quietDelayUs = us[arg % 6]; C.srv->remove(*(Server::Timer*)C.driver->handle); C.driver->removed = true; C.quiet = true; C.quietIntDone = false; probe("quiet_period"); C.quietSig->set(); }
    break;
  }
}

// ---------------------------------------------------------------- simulated remote parties and interrupters
static void remoteTask(void* a) {
  int r = (int)(intptr_t)a; const RunSpec& s = *C.spec; unsigned char buf[1024];
  int linger[4]; int nlinger = 0;   /* connections this remote keeps open and goes on reading from (a peer that stays): whatever the server queues for them must get through */
  for (size_t i = 0; i < s.plan.size() && !C.stopPeers; ++i) {
    const Op& op = s.plan[i]; if (op.task != 1 + r) continue;
    switch (op.code) {
    case R_STALL: { static const int ms[] = {1, 4, 15, 80}; usleep(ms[op.a[1] % 4] * 1000); break; }
    case R_CONNECT: {
      int fd = socket(AF_INET, SOCK_STREAM, 0); struct sockaddr_in sin; memset(&sin, 0, sizeof sin); sin.sin_family = AF_INET; sin.sin_port = htons((uint16_t)(5000 + op.a[0] % 2)); sin.sin_addr.s_addr = htonl(0x7f000001);
      if (connect(fd, (struct sockaddr*)&sin, sizeof sin) == 0) { probe("remote_connected"); size_t n = op.a[1] % 700; memset(buf, 9, sizeof buf); if (n) { fcntl(fd, F_SETFL, O_NONBLOCK); (void)!send(fd, buf, n, MSG_NOSIGNAL); } if (op.a[2] % 3 == 0) usleep(2000); if (op.a[2] % 2 == 0) { fcntl(fd, F_SETFL, O_NONBLOCK); (void)!recv(fd, buf, sizeof buf, 0); }
        if (op.a[2] % 5 == 4 && nlinger < 4) { fcntl(fd, F_SETFL, O_NONBLOCK); linger[nlinger++] = fd; probe("remote_stays_connected"); break; } }
      close(fd); break; }
    case R_LISTEN: {
      int ls = socket(AF_INET, SOCK_STREAM, 0); struct sockaddr_in sin; memset(&sin, 0, sizeof sin); sin.sin_family = AF_INET; sin.sin_port = htons((uint16_t)(6000 + op.a[0] % 3)); sin.sin_addr.s_addr = htonl(0x7f000001);
      if (bind(ls, (struct sockaddr*)&sin, sizeof sin) == 0 && listen(ls, 4) == 0) {
        fcntl(ls, F_SETFL, O_NONBLOCK);
        static const int ms[] = {5, 30, 200, 1500}; int64_t until = nowNs() + (int64_t)ms[op.a[1] % 4] * 1000000LL;
        while (nowNs() < until && !C.stopPeers) { int fd = accept(ls, 0, 0); if (fd >= 0) { probe("remote_accepted"); memset(buf, 5, sizeof buf); fcntl(fd, F_SETFL, O_NONBLOCK); (void)!send(fd, buf, op.a[2] % 300, MSG_NOSIGNAL); if (op.a[2] % 2) usleep(1000); close(fd); } else usleep(1000); }
      }
      close(ls); break; }
    }
  }
  { NoPreempt np; C.peersDone++; }
  /* the script of this remote is over, but it goes on reading from the connections it kept, until they end or the run does */
  while (nlinger > 0 && !C.stopped) { for (int k = 0; k < nlinger;) { ssize_t got = recv(linger[k], buf, sizeof buf, 0); if (got == 0 || (got < 0 && errno != EAGAIN && errno != EWOULDBLOCK && errno != EINTR)) { close(linger[k]); linger[k] = linger[--nlinger]; } else ++k; } usleep(1000); }
  for (int k = 0; k < nlinger; ++k) close(linger[k]);
}
static void interrupterTask(void* a) {
  int r = (int)(intptr_t)a; const RunSpec& s = *C.spec;
  for (size_t i = 0; i < s.plan.size() && !C.stopPeers; ++i) {
    const Op& op = s.plan[i]; if (op.task != 4 + r) continue;
    if (op.code == I_STALL) { static const int ms[] = {0, 1, 2, 7, 30, 200}; usleep(ms[op.a[1] % 6] * 1000); }
    else if (op.code == I_INTERRUPT) { { NoPreempt np; C.interruptsInvoked++; } logEvent("interrupt_invoke", r); C.srv->interrupt(); { NoPreempt np; C.interruptsCompleted++; C.lastInterruptDoneSeq = ++C.seq; } logEvent("interrupt_done", r); probe(C.inRun ? "interrupt_during_run" : "interrupt_outside_run"); }
  }
  { NoPreempt np; C.peersDone++; }
}

static void wakerTask(void*) {
  for (;;) {
    C.quietSig->wait(); C.quietSig->reset();
    if (C.wakerStop) return;
    if (C.quietDelayUs) usleep(C.quietDelayUs);
    { NoPreempt np; C.interruptsInvoked++; }
    logEvent("waker_interrupt_invoke");
    C.srv->interrupt();
    { NoPreempt np; C.interruptsCompleted++; C.lastInterruptDoneSeq = ++C.seq; C.quietDoneNs = nowNs(); C.quietIntDone = true; }
    logEvent("waker_interrupt_done");
  }
}

static void mainTask(void*) {
  const RunSpec& s = *C.spec;
  simnet::setDefaultCapacity((size_t)simdrv::knob(s, "cap", 65536));
  simnet::setFailHook(failHook);
  C.srv = new Server;
  C.quietSig = new Signal;
  int wakerId = spawn(wakerTask, 0, "waker");
  C.driver = newEnt(K_DRIVER, 0); C.driver->interval = 1; { int64_t lo = Time::ticks(); C.driver->handle = C.srv->time(1, C.driver->tcb); C.driver->t0lo = lo; C.driver->t0hi = Time::ticks(); }
  int nremote = (int)simdrv::knob(s, "remotes", 1), nint = (int)simdrv::knob(s, "interrupters", 1);
  int tids[8], nt = 0;
  for (int r = 0; r < nremote; ++r) tids[nt++] = spawn(remoteTask, (void*)(intptr_t)r, "remote");
  for (int r = 0; r < nint; ++r) tids[nt++] = spawn(interrupterTask, (void*)(intptr_t)r, "interrupter");
  C.peersTotal = nt;
  for (;;) {
    { NoPreempt np; C.runStartSeq[1] = C.runStartSeq[0]; C.runStartSeq[0] = ++C.seq; }
    C.inRun = true;
    C.srv->run();
    C.inRun = false;
    { NoPreempt np;
      C.returns++; logEvent("run_returned", C.returns);
      if (C.returns > C.interruptsInvoked) fail("C14/run_returned_without_interrupt", "run() returned %d times but interrupt() was called only %d times", C.returns, C.interruptsInvoked);
      // the flag consumed by this return was set after the previous return consumed it, i.e. after the previous run() call began:
      // some interrupt() must have completed after that moment (the consumption itself is not observable from outside)
      if (C.returns > 1 && C.interruptsInvoked == C.interruptsCompleted && C.lastInterruptDoneSeq < C.runStartSeq[1]) fail("C14/run_returned_without_interrupt", "run() returned again although every interrupt() had completed before its previous invocation began");
      C.lastReturnSeq = ++C.seq; }
    if (C.finishing) break;
    if (C.quiet) {
      // promptness: once interrupt() has completed, an otherwise idle loop must return at once - not at the next unrelated time-out
      // (simulated time only jumps when every thread sleeps, so 100 s cannot pass by computation)
      if (C.quietIntDone && nowNs() - C.quietDoneNs > 100LL * 1000000000LL) fail("C14/interrupt_late", "run() returned %lld ms after interrupt() had completed while the loop was idle", (long long)((nowNs() - C.quietDoneNs) / 1000000));
      if (C.quietIntDone) { C.quiet = false; C.driver = newEnt(K_DRIVER, 0); if (C.driver) { C.driver->interval = 1; int64_t lo = Time::ticks(); C.driver->handle = C.srv->time(1, C.driver->tcb); C.driver->t0lo = lo; C.driver->t0hi = Time::ticks(); } }
    }
    probe("run_restarted");
  }
  C.stopped = true;
  C.wakerStop = true; C.quietSig->set(); joinTask(wakerId);
  for (int i = 0; i < nt; ++i) joinTask(tids[i]);
  // a last interrupt issued by a late interrupter may be pending: harmless. tear down.
  for (int i = 0; i < C.nent; ++i) { Ent& e = C.ent[i]; if (e.kind != K_DRIVER && !e.removed && e.alive) removeEnt(&e); }
  if (C.driver && !C.driver->removed) { C.srv->remove(*(Server::Timer*)C.driver->handle); C.driver->removed = true; }
  for (int i = 0; i < C.ndups; ++i) close(C.dups[i]);
  delete C.srv; C.srv = 0; delete C.quietSig; C.quietSig = 0;
  delete Future<void>::Private::_threadPool; Future<void>::Private::_threadPool = 0;   // joins the resolver workers inside the simulation
  typedef Map<uint32, Error::Private::Str> ErrMap;
  Error::Private::userErrorStrings.~ErrMap(); new (&Error::Private::userErrorStrings) ErrMap();   // process-lifetime per-thread cache: released here so that it is not mistaken for a leak
}

static bool quiescence() { failSoft("C14/stuck", "event loop, remotes and interrupters all blocked and no timer pending"); return false; }
static void finalize() { if (C.finishing && C.srv == 0 && Future<void>::Private::_threadPool == 0) { memCheckLeaks("C14/memory_leaked"); if (simnet::openFdCount() != 0) failSoft("C14/descriptor_leaked", "%d simulated descriptors still open after the server was destroyed", simnet::openFdCount()); } }

static void generate(RunSpec& s, int tier) {
  uint64_t z = s.seed;
  auto r = [&](uint64_t n) { z += 0x9e3779b97f4a7c15ULL; uint64_t x = z; x = (x ^ (x >> 30)) * 0xbf58476d1ce4e5b9ULL; x = (x ^ (x >> 27)) * 0x94d049bb133111ebULL; x ^= x >> 31; return n ? x % n : x; };
  int nrem = (int)r(4), nint = (int)r(3);
  s.knobs["remotes"] = nrem; s.knobs["interrupters"] = nint; static const int caps[] = {16, 256, 4096, 65536}; s.knobs["cap"] = caps[r(4)];
  static const int pct[] = {0, 0, 10, 40}; s.knobs["epoll_fault_pct"] = pct[r(4)]; s.knobs["send_fault_pct"] = pct[r(4)]; s.knobs["conn_fault_pct"] = pct[r(4)]; s.knobs["dns_fault_pct"] = pct[r(4)]; s.knobs["eintr_pct"] = r(3) == 0 ? 5 : 0;
  static const int synck[] = {1, 2, 3, 5}; s.knobs["sync_switch_log2"] = synck[r(4)]; static const int memk[] = {255, 8, 5, 3}; s.knobs["mem_switch_log2"] = memk[r(4)]; s.knobs["nproc"] = 1 + r(4); s.knobs["burst"] = 1 + (r(3) == 0 ? r(4) : 0);
  int profile = (int)r(6);   /* 5: crowd (many pair clients created, all removed in a seeded order, new clients created in the freed pool slots) */   // 0 mixed, 1 timer-heavy, 2 connection-heavy, 3 mixed, 4 close storm (many pairs whose peers close, heartbeat writes, removals from inside onClosed)
  s.knobs["closed_removes_partner"] = profile == 4 ? r(3) : (r(6) == 0 ? 1 : 0);
  int ns = 6 + (int)r(30);
  for (int i = 0; i < ns; ++i) {
    Op o; o.task = 0; o.a[0] = (int64_t)r(24); o.a[1] = (int64_t)r(100000); o.a[2] = (int64_t)r(1000); o.a[3] = (int64_t)r(8);   // a3: where (0,3.. driver; 1 own callback; 2 any callback)
    uint64_t k = r(100);
    if (profile == 1) o.code = k < 45 ? T_CREATE : k < 80 ? T_REMOVE : k < 90 ? S_WAIT : C_PAIR;
    else if (profile == 2) o.code = k < 14 ? L_LISTEN : k < 20 ? L_REMOVE : k < 34 ? E_ADDR : k < 46 ? E_HOST : k < 54 ? E_REMOVE : k < 62 ? C_PAIR : k < 74 ? C_REMOVE : k < 80 ? C_WRITE : k < 84 ? S_ACCEPTPOLICY : k < 92 ? S_WAIT : S_INTERRUPT;
    else if (profile == 5) o.code = i == 0 ? C_CROWD : (i == 2 || k < 8) ? C_CROWDGONE : k < 16 ? C_CROWD : k < 50 ? C_PAIR : k < 62 ? C_WRITE : k < 74 ? C_REMOVE : k < 80 ? C_WRITEALL : k < 87 ? S_WAIT : k < 95 ? E_HOST : T_CREATE;   /* look-ups complete (a one-shot wake-up of the loop) while many sockets are ready */
    else if (profile == 4) o.code = (i < 3 || k < 30) ? C_PAIR : k < 55 ? C_CLOSEFAR : k < 75 ? C_WRITEALL : k < 82 ? C_REMOVE : k < 88 ? C_WRITE : k < 94 ? S_WAIT : T_CREATE;
    else o.code = k < 14 ? T_CREATE : k < 24 ? T_REMOVE : k < 32 ? L_LISTEN : k < 36 ? L_REMOVE : k < 43 ? E_ADDR : k < 49 ? E_HOST : k < 54 ? E_REMOVE : k < 63 ? C_PAIR : k < 72 ? C_REMOVE : k < 79 ? C_WRITE : k < 83 ? C_SUSPEND : k < 87 ? C_RESUME : k < 91 ? S_INTERRUPT : k < 97 ? S_WAIT : S_ACCEPTPOLICY;
    if (o.code == T_CREATE && r(2)) o.a[1] = r(3);
    if (profile == 5 && o.code == C_PAIR) o.a[1] = 3 * (int64_t)r(30000);   /* the far end sends something: the new client must be read */
    if (profile == 5) o.a[3] = 0;   /* executed by the driver */
    if (profile == 4 && o.code == C_PAIR && r(2)) o.a[1] = 3 + 7 * (int64_t)r(1000);   /* three pairs at once */
    if (profile != 4 && r(25) == 0) o.code = r(2) ? C_CLOSEFAR : C_WRITEALL;
    if ((profile == 0 || profile == 3 || profile == 4) && r(20) == 0) o.code = C_DUPFD;
    if ((profile == 0 || profile == 3 || profile == 4) && r(16) == 0) o.code = C_DOOMED;
    if (r(12) == 0) { o.code = S_QUIET; o.a[3] = 0; }   // bias towards small equal intervals: coincident due times
    s.plan.push_back(o);
  }
  for (int q = 0; q < nrem; ++q) { int n = 1 + (int)r(6); for (int i = 0; i < n; ++i) { Op o; o.task = 1 + q; o.a[0] = (int64_t)r(6); o.a[1] = (int64_t)r(100000); o.a[2] = (int64_t)r(1000); o.a[3] = 0; uint64_t k = r(100); o.code = k < 45 ? R_CONNECT : k < 75 ? R_LISTEN : R_STALL; s.plan.push_back(o); } }
  for (int q = 0; q < nint; ++q) { int n = 1 + (int)r(5); for (int i = 0; i < n; ++i) { Op o; o.task = 4 + q; o.a[0] = 0; o.a[1] = (int64_t)r(100000); o.a[2] = o.a[3] = 0; o.code = r(2) ? I_INTERRUPT : I_STALL; s.plan.push_back(o); } }
  (void)tier;
}

static Result execute(const RunSpec& s, bool keepLog) {
  Config cfg;
  cfg.mem_switch_log2 = (int)simdrv::knob(s, "mem_switch_log2", 255); cfg.sync_switch_log2 = (int)simdrv::knob(s, "sync_switch_log2", 2);
  cfg.rate[K_SEND] = simdrv::knob(s, "send_fault_pct", 0) / 100.0; cfg.rate[K_EPOLL] = simdrv::knob(s, "epoll_fault_pct", 0) / 100.0; cfg.rate[K_CONN] = simdrv::knob(s, "conn_fault_pct", 0) / 100.0; cfg.rate[K_DNS] = simdrv::knob(s, "dns_fault_pct", 0) / 100.0; cfg.rate[K_EINTR] = simdrv::knob(s, "eintr_pct", 0) / 100.0;
  cfg.step_budget = 4000000; cfg.tail_budget_min = 8000000; cfg.tail_factor = 10; cfg.keep_log = keepLog;
  setProcessorCount((int)simdrv::knob(s, "nproc", 2));
  static std::vector<Pending> pOwn, pAny; pOwn.clear(); pAny.clear();
  memset((void*)&C, 0, sizeof C); burstDepth = 0; C.spec = &s; C.pendOwn = &pOwn; C.pendAny = &pAny;
  Future<void>::Private::_threadPool = 0; Future<void>::Private::_threadPoolLock = 0;
  new (&Error::Private::userErrorStrings) Map<uint32, Error::Private::Str>();   // drop dangling arena pointers of an abandoned run
  Hooks h; h.main_fn = mainTask; h.quiescence = quiescence; h.finalize = finalize;
  Result r = run(s, cfg, h);
  Future<void>::Private::_threadPool = 0; Future<void>::Private::_threadPoolLock = 0;
  new (&Error::Private::userErrorStrings) Map<uint32, Error::Private::Str>();
  if (r.budget_exhausted && !r.violated && C.scriptDone && !C.finishing) {
    r.violated = true; r.cls = C.unresolvedEstab > 0 ? "C14/establisher_never_resolved" : "C14/not_settled_in_quiet_tail";
    char b[256]; snprintf(b, sizeof b, "quiet tail ended: unresolved establishers=%d peersDone=%d/%d", C.unresolvedEstab, C.peersDone, C.peersTotal); r.detail = b;
    for (int i = 0; i < C.nent; ++i) { Ent& e = C.ent[i]; if (e.kind == K_CLIENT && !e.removed && e.alive) { char q[160]; snprintf(q, sizeof q, " [client#%d failedIO=%d queued=%zu suspended=%d]", e.id, e.failedIO, simnet::queued(e.fd), e.suspended); r.detail += q; } }
  } else if (r.budget_exhausted && !r.violated && C.finishing && C.srv) {
    r.violated = true; r.cls = "C14/interrupt_ignored"; r.detail = "interrupt() completed but run() did not return within the quiet tail";
  }
  return r;
}

static simdrv::Harness H = {"C14", "c14_eventloop", generate, execute, opName, nullptr, nullptr, "", ""};
int main(int argc, char** argv) { return simdrv::main(argc, argv, H); }
