// C19: paths, files and directories behave truthfully and stay inside their tree.
// Real code: src/File.cpp, src/Directory.cpp, String.  REAL kernel file system inside a private scratch directory; only the
// fault decisions (error returns / short counts, K_FS) and the readdir order are simulated (sim/fs.cpp).
// Oracle: the same operation performed with plain POSIX calls on a mirror tree (kernel as reference model), snapshots of tree,
// mirror and an outside sentinel tree after every operation, and the narrow relaxation rules of DESIGN.md §4 C19 under faults.
#include <nstd/File.hpp>
#include <nstd/Directory.hpp>
#include <nstd/String.hpp>
#include "sim.hpp"
#include "driver.hpp"
#include "fs.hpp"
#include <stdio.h>
#include <string.h>
#include <fcntl.h>
#include <sys/stat.h>
#include <unistd.h>
#include <algorithm>
#include <string>
#include <vector>

using namespace sim;
namespace simfs { uint64_t faultCount(); size_t openDirCount(); size_t openFileCount(); }

enum Code { F_OPEN = 1, F_WRITE, F_WRITESTR, F_READ, F_READALL, F_SEEK, F_SIZE, F_CLOSE, F_COPY, F_RENAME, F_UNLINK, F_EXISTS, F_SYMLINK, D_CREATE, D_UNLINK, D_EXISTS, D_LIST, P_SIMPLIFY, P_DECOMP, P_REL, CODE_N };
static const char* codeName[] = {"?", "open", "write", "write(String)", "read", "readAll", "seek", "size", "close", "copy", "rename", "unlink", "exists", "symlink", "Directory::create", "Directory::unlink", "Directory::exists", "Directory::list", "simplifyPath", "decompose", "getRelativePath"};
static const char* opName(int c) { return (c > 0 && c < CODE_N) ? codeName[c] : "?"; }

static const char* names[] = {"a", "b", "c", "d", "d/e", "d/e/f", "d/g", "d/n", "l", "d/ld", "dangling", "x/y/z", "x", "d/e/h/i", "lf", "d/..data", "d/..data/k", "d/e/..."};   /* the last three: real names that merely begin with dots */
static const int NNAMES = 18;
struct Slot { File* f; int rfd; std::string name; bool open; };
struct Ctx { const RunSpec* spec; Slot slot[2]; uint64_t wseq; std::string outside0; bool stop; int opIndex; };
static Ctx C;

static String S(const std::string& s) { return String(s.c_str(), s.size()); }
static std::string T(const std::string& n) { return "t/" + n; }
static std::string M(const std::string& n) { return "m/" + n; }
static std::string mapOutside(std::string s) { for (size_t i; (i = s.find("/p/")) != std::string::npos;) s.replace(i, 3, "/o/"); return s; }
static std::string str(const String& s) { return std::string((const char*)s, s.length()); }

static void compareTrees(const char* after) {
  Host h;
  std::string a = simfs::snapshot("t") + "--- outside:\n" + simfs::snapshot("o"), b = mapOutside(simfs::snapshot("m")) + "--- outside:\n" + mapOutside(simfs::snapshot("p"));
  if (a != b) { char cls[96]; snprintf(cls, sizeof cls, "C19/tree_differs_from_reference/%s", after); fail(cls, "after %s (op #%d) the tree differs from the same operation done with plain POSIX calls.\n--- libnstd tree:\n%s--- reference tree:\n%s", after, C.opIndex, a.c_str(), b.c_str()); }
}
static void checkOutside(const char* after) {
  Host h; std::string o = simfs::snapshot("o");
  if (o != C.outside0) { char cls[96]; snprintf(cls, sizeof cls, "C19/outside_tree_modified/%s", after); fail(cls, "%s (op #%d) modified the sentinel tree outside the directory it was given:\n--- before:\n%s--- after:\n%s", after, C.opIndex, C.outside0.c_str(), o.c_str()); }
}
// a failed operation must not leave new files behind nor change files other than its destination
static void checkFailedOp(const char* what, const std::vector<simfs::Entry>& pre, const std::string& dest) {
  Host h; std::vector<simfs::Entry> post = simfs::list("t");
  for (auto& e : post) {
    const simfs::Entry* old = 0; for (auto& p : pre) if (p.path == e.path) old = &p;
    if (!old && e.path == dest && simfs::faultedCalls().find("unlink") != std::string::npos) { probe("cleanup_unlink_failed"); continue; }   // the library's own clean-up was hit by the injected fault
    if (!old && dest != "*" && e.path != dest && simfs::sameFile(("t/" + e.path).c_str(), ("t/" + dest).c_str())) { probe("new_file_through_dangling_link_destination"); continue; }   // the destination was a dangling link: its target is the destination
    if (!old) { char cls[96]; snprintf(cls, sizeof cls, "C19/failed_op_left_new_file/%s", what); fail(cls, "%s reported failure (op #%d) but left the new path '%s' behind", what, C.opIndex, e.path.c_str()); }
    if ((old->kind != e.kind || old->data != e.data) && e.path != dest && dest != "*" && !simfs::sameFile(("t/" + e.path).c_str(), ("t/" + dest).c_str())) { char cls[96]; snprintf(cls, sizeof cls, "C19/failed_op_changed_other_file/%s", what); fail(cls, "%s reported failure (op #%d) but changed '%s'", what, C.opIndex, e.path.c_str()); }
    if (e.path == dest && old->kind == 'f' && e.kind == 'f' && e.data != old->data) probe("failed_op_partial_destination");
  }
  for (auto& p : pre) { bool found = false; for (auto& e : post) if (e.path == p.path) found = true; if (!found && p.path != dest) { char cls[96]; snprintf(cls, sizeof cls, "C19/failed_op_removed_file/%s", what); fail(cls, "%s reported failure (op #%d) but '%s' disappeared", what, C.opIndex, p.path.c_str()); } }
}
static std::string rel(const std::string& tpath) { return tpath.size() > 2 ? tpath.substr(2) : "."; }

// ------------------------------------------------------------------ path clauses (pure; ride along)
static const char* comps[] = {"a", "b", "a.b", ".x", ".", "..", "c.tar.gz", "name"};
static std::string genPath(uint64_t v) {
  std::string p; int n = (int)(v % 6); v /= 6; bool abs = v % 4 == 0; v /= 4; bool back = v % 5 == 0; v /= 5; bool trail = v % 6 == 0; v /= 6;
  if (abs) p += '/';
  for (int i = 0; i < n; ++i) { if (i) p += (back && i % 2) ? '\\' : '/'; p += comps[v % 8]; v /= 8; }
  if (trail && !p.empty()) p += '/';
  return p;
}
struct Norm { bool abs; std::vector<std::string> c; bool operator==(const Norm& o) const { return abs == o.abs && c == o.c; } };
static Norm normalise(const std::string& p) {
  Norm n; n.abs = !p.empty() && (p[0] == '/' || p[0] == '\\');
  std::string cur; std::vector<std::string> parts;
  for (size_t i = 0; i <= p.size(); ++i) { if (i == p.size() || p[i] == '/' || p[i] == '\\') { parts.push_back(cur); cur.clear(); } else cur += p[i]; }
  for (auto& s : parts) { if (s.empty() || s == ".") continue; if (s == ".." && !n.c.empty() && n.c.back() != "..") { n.c.pop_back(); continue; } n.c.push_back(s); }
  return n;
}
static std::string show(const Norm& n) { std::string s = n.abs ? "/" : ""; for (size_t i = 0; i < n.c.size(); ++i) { if (i) s += "/"; s += n.c[i]; } return s.empty() ? "." : s; }
static void pathOp(int code, uint64_t a, uint64_t b) {
  std::string p = genPath(a);
  if (code == P_SIMPLIFY) {
    std::string s1 = str(File::simplifyPath(S(p))), s2 = str(File::simplifyPath(S(s1)));
    if (s1 != s2) fail("C19/path/simplify_not_idempotent", "simplifyPath('%s') = '%s' but simplifying again gives '%s'", p.c_str(), s1.c_str(), s2.c_str());
    Host h; if (!(normalise(p) == normalise(s1))) fail("C19/path/simplify_not_equivalent", "simplifyPath('%s') = '%s' which denotes '%s', the input denotes '%s'", p.c_str(), s1.c_str(), show(normalise(s1)).c_str(), show(normalise(p)).c_str());
  } else if (code == P_DECOMP) {
    std::string dir = str(File::getDirectoryName(S(p))), base = str(File::getBaseName(S(p))), stem = str(File::getStem(S(p))), ext = str(File::getExtension(S(p)));
    Host h;
    bool hasSep = p.find('/') != std::string::npos || p.find('\\') != std::string::npos;
    if (hasSep) { std::string re = dir + "/" + base; if (!(normalise(re) == normalise(p)) || (dir.empty() && !normalise(p).abs)) fail("C19/path/dir_plus_base", "getDirectoryName('%s')='%s' + '/' + getBaseName='%s' does not recompose the path", p.c_str(), dir.c_str(), base.c_str()); }
    else if (base != p) fail("C19/path/dir_plus_base", "getBaseName('%s')='%s' for a path without separator", p.c_str(), base.c_str());
    std::string re = base.find('.') != std::string::npos ? stem + "." + ext : stem;
    if (re != base && base != "." && base != ".." /* the special names . and .. have no stem/extension structure */) fail("C19/path/stem_plus_extension", "getStem('%s')='%s' and getExtension='%s' do not recompose the base name '%s'", p.c_str(), stem.c_str(), ext.c_str(), base.c_str());
  } else {
    std::string q = genPath(b);
    Norm nf, nt; { Host h; nf = normalise(p); nt = normalise(q); }
    if (nf.abs != nt.abs) return;                                     // only both relative or both absolute
    if (!nf.c.empty() && nf.c[0] == "..") return;                     // 'from' above its origin cannot be answered lexically
    std::string r = str(File::getRelativePath(S(p), S(q)));
    Host h; Norm joined = normalise(p + "/" + r); if (nf.c.empty() && !nf.abs) joined = normalise(r);
    if (r.empty() || !(joined == nt)) fail("C19/path/relative_path", "getRelativePath('%s', '%s') = '%s'; from + '/' + result denotes '%s', not '%s'", p.c_str(), q.c_str(), r.c_str(), show(joined).c_str(), show(nt).c_str());
  }
}

// ------------------------------------------------------------------ file / directory operations
static int refFlags(unsigned flags) {
  if ((flags & 3) == 3) return (flags & File::openFlag) ? O_RDWR : (O_CREAT | O_RDWR);
  if (flags & File::writeFlag) return (flags & File::openFlag) ? O_WRONLY : ((flags & File::appendFlag) ? (O_CREAT | O_WRONLY) : (O_CREAT | O_TRUNC | O_WRONLY));
  return O_RDONLY;
}
static void fill(std::string& b, size_t n) { b.resize(n); for (size_t i = 0; i < n; ++i) b[i] = (char)('A' + ((C.wseq * 7 + i) % 26)); C.wseq++; }
static void closeSlot(Slot& s) { if (s.open) { s.f->close(); { Host h; simfs::rClose(s.rfd); } s.open = false; } }

static void doOp(const Op& op) {
  char what[64]; snprintf(what, sizeof what, "%s", opName(op.code));
  uint64_t faults0 = simfs::faultCount();
  std::vector<simfs::Entry> pre; { Host h; pre = simfs::list("t"); }
  std::string n1 = names[op.a[0] % NNAMES], n2 = names[op.a[1] % NNAMES];
  Slot& sl = C.slot[op.a[0] % 2];
  logEvent("op", op.code, op.a[0], op.a[1]);
  auto faulted = [&]() { return simfs::faultCount() != faults0; };
  switch (op.code) {
  case F_OPEN: {
    static const unsigned fl[] = {File::readFlag, File::writeFlag, File::readFlag | File::writeFlag, File::writeFlag | File::appendFlag, File::writeFlag | File::openFlag, File::readFlag | File::writeFlag | File::openFlag, File::readFlag | File::writeFlag | File::appendFlag,
      File::writeFlag | File::appendFlag | File::openFlag, File::readFlag | File::writeFlag | File::appendFlag | File::openFlag, File::readFlag | File::openFlag, File::readFlag | File::appendFlag, File::readFlag | File::appendFlag | File::openFlag};   /* every combination of the four flags that names a direction */
    unsigned flags = fl[op.a[2] % 12]; std::string nm = names[op.a[1] % NNAMES];
    if (op.a[3] % 12 == 0) { nm = "fifo"; static const unsigned ff[] = {File::readFlag | File::writeFlag | File::appendFlag, File::readFlag | File::writeFlag | File::openFlag, File::readFlag | File::writeFlag | File::appendFlag | File::openFlag}; flags = ff[(op.a[3] / 12) % 3]; probe("open_fifo"); }
    { Host h; if (simfs::rStatIsDir(T(nm).c_str())) return; }   // opening a directory as a file is outside the property (lseek on a directory descriptor is file-system specific)
    closeSlot(sl);
    bool ok = sl.f->open(S(T(nm)), flags);
    if (!ok && sl.f->isOpen()) fail("C19/failed_open_left_object_open", "File::open('%s', flags %u) returned false but isOpen() is true", nm.c_str(), flags);
    if (!ok && faulted()) { checkFailedOp(what, pre, nm); C.stop = true; return; }
    Host h; int rfd = simfs::rOpen(M(nm).c_str(), refFlags(flags), 0644); if (rfd >= 0 && (flags & File::appendFlag) && simfs::rSeek(rfd, 0, SEEK_END) < 0) { simfs::rClose(rfd); rfd = -1; probe("open_append_unseekable"); }
    if (ok != (rfd >= 0)) { if (rfd >= 0) simfs::rClose(rfd); fail("C19/open_result", "File::open('%s', flags %u) returned %d, the same open with POSIX calls %s", nm.c_str(), flags, ok, rfd >= 0 ? "succeeds" : "fails"); }
    if (ok && nm == "fifo") { sl.f->close(); simfs::rClose(rfd); break; }      /* reading an empty FIFO would block: opened and closed only */
    if (ok) { sl.open = true; sl.rfd = rfd; sl.name = nm; }
    break; }
  case F_WRITE: case F_WRITESTR: {
    if (!sl.open) return; std::string buf; { Host h; fill(buf, 1 + op.a[1] % 400); }
    long r; bool okb = true;
    if (op.code == F_WRITE) r = (long)sl.f->write(buf.data(), buf.size()); else { okb = sl.f->write(S(buf)); r = -2; }
    Host h;
    long rr = simfs::rWrite(sl.rfd, buf.data(), buf.size());
    if (!faulted()) { if (op.code == F_WRITE ? r != rr : okb != (rr == (long)buf.size())) fail("C19/write_result", "write of %zu bytes returned %ld, plain write(2) on the mirror returned %ld", buf.size(), op.code == F_WRITE ? r : (long)okb, rr); }
    else {   // the injected fault made libnstd's write fail or fall short: the file may hold a prefix of the data (narrow relaxation); stop afterwards
      bool claimedFull = op.code == F_WRITE ? r == (long)buf.size() : okb;
      if (!claimedFull) { checkFailedOp(what, pre, "*"); C.stop = true; return; }   // '*': the open file may have been renamed meanwhile; only new paths are checked
    }
    break; }
  case F_READ: {
    if (!sl.open) return; size_t n = 1 + op.a[1] % 300; std::string a(n, 0), b(n, 0);
    long r = (long)sl.f->read(&a[0], n);
    Host h; if (faulted()) { C.stop = true; if (r > 0) { long rr = simfs::rRead(sl.rfd, &b[0], r); if (rr != r || memcmp(a.data(), b.data(), r) != 0) fail("C19/read_wrong_data", "read under an injected fault returned data that is not in the file"); } return; }
    long rr = simfs::rRead(sl.rfd, &b[0], n);
    if (r != rr || (r > 0 && memcmp(a.data(), b.data(), r) != 0)) fail("C19/read_result", "read(%zu) returned %ld bytes, plain read(2) on the mirror returned %ld bytes%s", n, r, rr, r == rr ? " with different content" : "");
    break; }
  case F_READALL: {
    if (!sl.open) return; String data; bool ok = sl.f->readAll(data);
    Host h; if (faulted()) { C.stop = true; if (!ok) return; }
    long pos = simfs::rSeek(sl.rfd, 0, SEEK_CUR), end = simfs::rSeek(sl.rfd, 0, SEEK_END); simfs::rSeek(sl.rfd, pos, SEEK_SET);
    std::string b(end > 0 ? end : 0, 0); long rr = simfs::rRead(sl.rfd, &b[0], b.size()); if (rr < 0) rr = 0; b.resize(rr);
    if (faulted()) { if (str(data) != b.substr(0, data.length())) fail("C19/read_wrong_data", "readAll under an injected fault returned data that is not in the file"); return; }
    if (!ok ? rr >= 0 && end >= 0 && false : str(data) != b) fail("C19/readAll_result", "readAll returned %zu bytes, the file holds %ld bytes from the current position (content %s)", (size_t)data.length(), rr, str(data) == b ? "equal" : "differs");
    break; }
  case F_SEEK: {
    if (!sl.open) return; static const File::Position ps[] = {File::setPosition, File::currentPosition, File::endPosition}; static const int wh[] = {SEEK_SET, SEEK_CUR, SEEK_END};
    int w = (int)(op.a[2] % 3); long off = (long)(op.a[1] % 500) - (w ? 200 : 0);
    long r = (long)sl.f->seek(off, ps[w]);
    Host h; if (faulted()) { C.stop = true; return; }
    long rr = simfs::rSeek(sl.rfd, off, wh[w]);
    if (r != rr) fail("C19/seek_result", "seek(%ld, %d) returned %ld, lseek on the mirror returned %ld", off, w, r, rr);
    break; }
  case F_SIZE: {
    if (!sl.open) return; long r = (long)sl.f->size();
    Host h; if (faulted()) { C.stop = true; return; }
    long pos = simfs::rSeek(sl.rfd, 0, SEEK_CUR), end = simfs::rSeek(sl.rfd, 0, SEEK_END); simfs::rSeek(sl.rfd, pos, SEEK_SET);
    if (r != end) fail("C19/size_result", "size() returned %ld, the file has %ld bytes", r, end);
    long tpos; { tpos = (long)sl.f->seek(0, File::currentPosition); }
    if (tpos != pos && !faulted()) fail("C19/size_moved_position", "size() moved the file position from %ld to %ld", pos, tpos);
    break; }
  case F_CLOSE: closeSlot(sl); break;
  case F_COPY: case F_RENAME: {
    { Host h; if (n1 == n2 || simfs::sameFile(T(n1).c_str(), T(n2).c_str())) return; }   // copying/renaming a file onto itself is caller misuse, not judged (observation O4)
    bool fie = op.a[2] % 2; bool ok = op.code == F_COPY ? File::copy(S(T(n1)), S(T(n2)), fie) : File::rename(S(T(n1)), S(T(n2)), fie);
    if (!ok) { checkFailedOp(what, pre, n2); if (faulted()) { C.stop = true; return; } }
    if (ok && faulted()) probe("op_succeeded_despite_fault");
    bool destDamaged = false; if (!ok) { Host h; std::string a, b; if (simfs::kindOf(T(n2)) == 'f' && simfs::kindOf(M(n2)) == 'f' && simfs::readFile(T(n2), a) && simfs::readFile(M(n2), b) && a != b) destDamaged = true; }
    Host h; bool rok;
    if (op.code == F_COPY) {
      std::string data; rok = simfs::kindOf(M(n1)) != 'd' && simfs::readFile(M(n1), data);
      if (rok) { int fd = simfs::rOpen(M(n2).c_str(), O_CREAT | O_TRUNC | O_WRONLY | (fie ? O_EXCL : 0), 0644); rok = fd >= 0; if (rok) { rok = simfs::rWrite(fd, data.data(), data.size()) == (long)data.size(); simfs::rClose(fd); } }
    } else {
      // (File::rename is a file operation: with failIfExists the exclusive placeholder makes renaming a directory fail - not judged here, observation O3)
      rok = !(fie && simfs::kindOf(M(n2)) != 0) && !(fie && simfs::kindOf(M(n1)) == 'd') && simfs::rRename(M(n1).c_str(), M(n2).c_str()) == 0;
    }
    if (ok != rok && !faulted()) fail(op.code == F_COPY ? "C19/copy_result" : "C19/rename_result", "%s('%s', '%s', failIfExists=%d) returned %d, the same operation with POSIX calls %s", what, n1.c_str(), n2.c_str(), fie, ok, rok ? "succeeds" : "fails");
    if (ok && !rok) { C.stop = true; fail(op.code == F_COPY ? "C19/copy_result" : "C19/rename_result", "%s reported success although it cannot succeed", what); }
    if (destDamaged) { probe("failed_op_damaged_existing_destination"); std::string a; simfs::readFile(T(n2), a); simfs::writeFile(M(n2), a); }   // allowed by the relaxation rule: carry it over to the mirror
    break; }
  case F_UNLINK: { bool ok = File::unlink(S(T(n1))); if (!ok) { checkFailedOp(what, pre, n1); if (faulted()) { C.stop = true; return; } } Host h; bool rok = simfs::kindOf(M(n1)) != 'd' && simfs::rUnlink(M(n1).c_str()) == 0; if (ok != rok) fail("C19/unlink_result", "File::unlink('%s') returned %d, unlink(2) on the mirror %s", n1.c_str(), ok, rok ? "succeeds" : "fails"); break; }
  case F_EXISTS: { bool r = File::exists(S(T(n1))); Host h; if (faulted()) return; if (r != (simfs::kindOf(M(n1)) != 0)) fail("C19/exists_result", "File::exists('%s') returned %d", n1.c_str(), r); break; }
  case F_SYMLINK: { static const char* targets[] = {"a", "../o/keep", "../o/sub", "nowhere", "d"}; std::string tg = targets[op.a[2] % 5]; bool ok = File::createSymbolicLink(S(tg), S(T(n1))); if (!ok) { checkFailedOp(what, pre, n1); if (faulted()) { C.stop = true; return; } } Host h; std::string mtg = tg; if (mtg.compare(0, 5, "../o/") == 0) mtg = "../p/" + mtg.substr(5); bool rok = simfs::symlinkTo(mtg, M(n1)); if (ok != rok) fail("C19/symlink_result", "createSymbolicLink returned %d, symlink(2) on the mirror %s", ok, rok ? "succeeds" : "fails"); break; }
  case D_CREATE: {
    /* a third of the creations name the directory through "." / ".." components (only here: for the other operations such a path names a sibling tree) */
    { static const char* dotNames[] = {"n/m/.", "n/q/..", "n/q/../r", "a/sub/.", "d/e/.", "d/k/./j", "w/..", "d/e/f/.."}; if (op.a[2] % 3 == 0) { n1 = dotNames[(op.a[2] / 3) % 8]; probe("create_with_dot_components"); } }
    bool ok = Directory::create(S(T(n1)));
    Host h; bool isdir = simfs::rStatIsDir(T(n1).c_str()) != 0;
    // under an injected fault the library may be unable to see an existing directory, but only if its own FINAL stat() was the call that failed
    bool blind = faulted() && !ok && simfs::lastCallWasFaulted("stat");   // its final existence check itself was the call that failed
    if (ok != isdir && !blind) fail("C19/create_result", "Directory::create('%s') returned %d but the directory %s afterwards%s", n1.c_str(), ok, isdir ? "exists" : "does not exist", faulted() ? " (under an injected fault)" : "");
    if (faulted()) { C.stop = true; return; }
    simfs::mkdirs(M(n1));
    break; }
  case D_UNLINK: {
    bool viaLink = false;   // a path that itself passes through a symbolic link (e.g. x -> ../o/sub, then x/y/z) names a directory outside on purpose
    { Host h; C.outside0 = simfs::snapshot("o"); std::string full = T(n1); for (size_t i = 2; i < full.size(); ++i) if (full[i] == '/' && simfs::kindOf(full.substr(0, i)) == 'l') viaLink = true; }
    bool rec = op.a[2] % 2; bool ok = Directory::unlink(S(T(n1)), rec);
    if (!viaLink) checkOutside(what); else probe("unlink_path_through_link");
    { Host h; std::vector<simfs::Entry> post = simfs::list("t"); std::string pfx = n1 + "/";
      if (!viaLink) for (auto& p : pre) { if (p.path == n1 || p.path.compare(0, pfx.size(), pfx) == 0) continue; const simfs::Entry* now = 0; for (auto& e : post) if (e.path == p.path) now = &e; if (!now || now->kind != p.kind || now->data != p.data) fail("C19/unlink_touched_outside_subtree", "Directory::unlink('%s') changed '%s' which is outside that directory", n1.c_str(), p.path.c_str()); }
      if (ok && simfs::kindOf(T(n1)) != 0) fail("C19/unlink_result", "Directory::unlink('%s') returned true but the path still exists", n1.c_str()); }
    if (faulted()) { C.stop = true; return; }
    Host h; bool rok = simfs::kindOf(M(n1)) == 'd' && (rec ? simfs::removeTree(M(n1)) : simfs::rRmdir(M(n1).c_str()) == 0);
    if (ok != rok) fail("C19/unlink_result", "Directory::unlink('%s', recursive=%d) returned %d, the reference %s", n1.c_str(), rec, ok, rok ? "succeeds" : "fails");
    break; }
  case D_EXISTS: { bool r = Directory::exists(S(T(n1))); Host h; if (faulted()) return; if (r != (simfs::rStatIsDir(M(n1).c_str()) != 0)) fail("C19/dir_exists_result", "Directory::exists('%s') returned %d", n1.c_str(), r); break; }
  case D_LIST: {
    std::vector<std::string> got; bool opened;
    { Directory d; opened = d.open(S(T(n1)), String(), false); if (opened) { String nm; bool isDir; while (d.read(nm, isDir)) { Host h; got.push_back(str(nm) + (isDir ? "/" : "")); } } }
    Host h; if (faulted()) return;
    std::vector<std::string> exp; bool ropen = simfs::rStatIsDir(M(n1).c_str()) != 0;
    if (ropen) for (auto& nm : simfs::dirNames(M(n1))) exp.push_back(nm + (simfs::rStatIsDir((M(n1) + "/" + nm).c_str()) ? "/" : ""));
    std::sort(got.begin(), got.end()); std::sort(exp.begin(), exp.end());
    if (opened != ropen || got != exp) { std::string g, x; for (auto& s : got) g += s + " "; for (auto& s : exp) x += s + " "; fail("C19/list_result", "listing of '%s' gave [%s], the directory holds [%s]", n1.c_str(), g.c_str(), x.c_str()); }
    break; }
  case P_SIMPLIFY: case P_DECOMP: case P_REL: pathOp(op.code, (uint64_t)op.a[0] * 1000003ULL + (uint64_t)op.a[1], (uint64_t)op.a[2] * 1000003ULL + (uint64_t)op.a[3]); return;
  }
  if (C.stop) return;
  compareTrees(what);
}

static void buildTree(const std::string& r, int variant, const std::string& out) {
  simfs::mkdirs(r); simfs::writeFile(r + "/a", "alpha"); std::string big; for (int i = 0; i < 300; ++i) big += (char)('a' + i % 26); simfs::writeFile(r + "/b", big);
  simfs::mkdirs(r + "/d/e"); simfs::writeFile(r + "/d/e/f", "eff"); simfs::writeFile(r + "/d/g", "gee");
  if (variant & 1) simfs::symlinkTo("../" + out + "/keep", r + "/l");
  if (variant & 2) simfs::symlinkTo("../../" + out + "/sub", r + "/d/ld");
  if (variant & 4) simfs::symlinkTo("nowhere", r + "/dangling");
  if (variant & 8) simfs::symlinkTo("a", r + "/lf");
  if (variant & 16) simfs::mkdirs(r + "/x/y/z");
  mkfifo((r + "/fifo").c_str(), 0644);     /* something that can be opened but not positioned; only File::open for reading AND writing ever touches it (any other open of a FIFO blocks) */
}

static void mainTask(void*) {
  const RunSpec& s = *C.spec;
  simfs::enable(true);
  for (size_t i = 0; i < s.plan.size() && !C.stop; ++i) { C.opIndex = (int)i; doOp(s.plan[i]); }
  closeSlot(C.slot[0]); closeSlot(C.slot[1]);
  /* fault-free histories: every descriptor and directory stream the library opened has been closed again (the two File objects are closed, Directory objects are scoped) */
  if (!simfs::faultCount()) { if (simfs::openDirCount()) fail("C19/directory_stream_left_open", "%zu directory streams opened by the library were never closed", simfs::openDirCount()); if (simfs::openFileCount()) fail("C19/descriptor_left_open", "%zu file descriptors opened by the library were never closed", simfs::openFileCount()); }
  simfs::enable(false);
}

static void generate(RunSpec& s, int tier) {
  uint64_t z = s.seed;
  auto r = [&](uint64_t n) { z += 0x9e3779b97f4a7c15ULL; uint64_t x = z; x = (x ^ (x >> 30)) * 0xbf58476d1ce4e5b9ULL; x = (x ^ (x >> 27)) * 0x94d049bb133111ebULL; x ^= x >> 31; return n ? x % n : x; };
  s.knobs["tree"] = r(32); static const int pct[] = {0, 0, 4, 12}; s.knobs["fs_fault_pct"] = pct[r(4)]; s.knobs["readdir_order_pct"] = r(2) ? 50 : 0;
  int n = 3 + (int)r(22); bool pathHeavy = r(5) == 0;
  for (int i = 0; i < n; ++i) {
    Op o; o.task = 0; o.a[0] = (int64_t)r(1000); o.a[1] = (int64_t)r(1000); o.a[2] = (int64_t)r(1000); o.a[3] = (int64_t)r(1000);
    uint64_t k = r(100);
    if (pathHeavy) o.code = k < 34 ? P_SIMPLIFY : k < 67 ? P_DECOMP : P_REL;
    else o.code = k < 12 ? F_OPEN : k < 22 ? F_WRITE : k < 26 ? F_WRITESTR : k < 31 ? F_READ : k < 36 ? F_READALL : k < 42 ? F_SEEK : k < 46 ? F_SIZE : k < 49 ? F_CLOSE : k < 56 ? F_COPY : k < 64 ? F_RENAME : k < 69 ? F_UNLINK : k < 71 ? F_EXISTS : k < 75 ? F_SYMLINK : k < 83 ? D_CREATE : k < 91 ? D_UNLINK : k < 93 ? D_EXISTS : k < 96 ? D_LIST : k < 97 ? P_SIMPLIFY : k < 98 ? P_DECOMP : P_REL;
    s.plan.push_back(o);
  }
  (void)tier;
}

static Result execute(const RunSpec& s, bool keepLog) {
  Config cfg; cfg.mem_switch_log2 = 255; cfg.sync_switch_log2 = 255;
  cfg.rate[K_FS] = simdrv::knob(s, "fs_fault_pct", 0) / 100.0; cfg.rate[K_PEER] = simdrv::knob(s, "readdir_order_pct", 0) / 100.0;
  cfg.step_budget = 20000000; cfg.keep_log = keepLog;
  simfs::scratch(); simfs::wipe();
  int variant = (int)simdrv::knob(s, "tree", 31);
  for (const char* o : {"o", "p"}) { simfs::mkdirs(std::string(o) + "/sub"); simfs::writeFile(std::string(o) + "/keep", "outside-keep"); simfs::writeFile(std::string(o) + "/sub/deep", "outside-deep"); }
  buildTree("t", variant, "o"); buildTree("m", variant, "p");
  static File files[2];
  C.spec = &s; C.wseq = 0; C.stop = false; C.opIndex = 0; C.outside0 = simfs::snapshot("o");
  for (int i = 0; i < 2; ++i) { C.slot[i].f = &files[i]; C.slot[i].open = false; C.slot[i].rfd = -1; }
  Hooks h; h.main_fn = mainTask;
  Result r = run(s, cfg, h);
  for (int i = 0; i < 2; ++i) { files[i].close(); if (C.slot[i].open && C.slot[i].rfd >= 0) simfs::rClose(C.slot[i].rfd); C.slot[i].open = false; }
  r.probes[simdrv::knob(s, "fs_fault_pct", 0) ? "config_fault_injecting" : "config_fault_free"]++;
  r.probes["fs_decision_points"] = decisionCount(1, K_FS);
  return r;
}

// single-fault sweep: every file-system call of the fault-free run fails once with each error class
static void extra(const RunSpec& s, int tier, void (*cb)(const RunSpec&, const Result&, void*), void* ctx) {
  if ((s.seed >> 9) % 3 != 0) return;
  RunSpec base = s; base.replay = true; base.decisions.clear(); base.preemptions.clear(); base.knobs["fs_fault_pct"] = 0; base.knobs["readdir_order_pct"] = 0;
  Result r0 = execute(base, false); cb(base, r0, ctx); if (r0.violated) return;
  uint64_t n = r0.probes["fs_decision_points"]; if (n > 60) n = 60;
  for (uint64_t i = 0; i < n; ++i) for (int c = 1; c <= 2; ++c) {
    RunSpec v = base; v.decisions.push_back(Decision{1, K_FS, (int)i, c});
    Result r = execute(v, false); r.probes["single_fault_sweep_runs"]++; cb(v, r, ctx); if (r.violated) return;
  }
  (void)tier;
}

static simdrv::Harness H = {"C19", "c19_files", generate, execute, opName, nullptr, extra, "", ""};
int main(int argc, char** argv) { return simdrv::main(argc, argv, H); }
