// C10: every Future call runs exactly once and join waits for its result — all interleavings of clients, workers, pool
// growth/retirement, full job queue, spurious wake-ups.
// Real code: src/Future.cpp (included here so that the private pool can be configured/reset), Future.hpp, Call.hpp,
// Signal.cpp, Mutex.cpp, Thread.cpp, Time.cpp, System.cpp, PoolList.hpp, Atomic.hpp, String.hpp.
// Stub: threads, mutex/condvar, clock, processor count, allocator.
#include <Future.cpp>          // $(REPO)/src/Future.cpp, compiled with -fno-access-control
#include <nstd/String.hpp>
#include "sim.hpp"
#include "driver.hpp"
#include <stdio.h>
#include <string.h>
#include <string>

using namespace sim;
namespace sim { void setProcessorCount(int n); uint64_t condOpsAfterDestroy(); uint64_t threadsCreated(); uint64_t threadsNotJoined(); uint64_t threadCreateFailureCount(); }

typedef Future<void>::Private FP;

enum Code { O_START = 1, O_JOIN, O_CONVERT, O_ABORT, O_QUERY, O_SLEEP, O_RECREATE, O_WORK, O_ABORTOTHER, O_N };
static const char* codeName[] = {"?", "start", "join", "convert", "abort", "query", "sleep", "recreate", "work", "abort(from another thread)"};
static const char* opName(int c) { return (c > 0 && c < O_N) ? codeName[c] : "?"; }

static const int MAXCALL = 128;
struct CallInfo { int kind; int param; int exec; bool done; int client, fut; void* futObj; int futType; int argEchoBad; bool member; };
struct Fut { void* obj; int type; int lastCall; bool abortReq; int pins; bool recreating; unsigned crossCount, crossDone, crossAtStart; bool crossInflightAtStart; };   /* pins: other threads inside abort() on this object; cross*: abort() calls from other threads (begun / returned; values when the owner's latest start began) */   // type 0 void, 1 int, 2 String
struct Ctx {
  const RunSpec* spec; int nclients; int phase;   // 0 clients, 1 teardown
  Fut fut[4][3]; CallInfo call[MAXCALL]; int ncalls;
  int taskIds[4]; int lockWaiters;
  struct Target* target;
};
static Ctx C;

static bool futAborting(int id) {
  CallInfo& ci = C.call[id];
  switch (ci.futType) { case 0: return ((Future<void>*)ci.futObj)->isAborting(); case 1: return ((Future<int>*)ci.futObj)->isAborting(); default: return ((Future<String>*)ci.futObj)->isAborting(); }
}
static void body(int id, const String& s) {
  CallInfo ci; { Host h; ci = C.call[id]; C.call[id].exec++; if (C.call[id].exec > 1) failSoft("C10/executed_twice", "call %d executed %d times", id, C.call[id].exec); }
  if (failed()) fail("", " ");
  logEvent("call_exec", id);
  { char exp[32]; snprintf(exp, sizeof exp, "c%d", id); if (s.length() != strlen(exp) || memcmp((const char*)s, exp, strlen(exp)) != 0) { Host h; C.call[id].argEchoBad = 1; } }
  switch (ci.kind) {
  case 0: break;
  case 1: for (volatile int i = 0; i < ci.param % 40; ++i) yieldMem(); break;
  case 2: Thread::sleep(ci.param % 50); break;
  case 3: for (int i = 0; i < ci.param % 30 && !futAborting(id); ++i) Thread::yield(); break;
  }
  { Host h; C.call[id].done = true; }
  logEvent("call_done", id);
}
static void fv(int id, String s) { body(id, s); }
static int fi(int id, String s) { body(id, s); return id * 7 + 1; }
static String fs(int id, String s) { body(id, s); char b[32]; snprintf(b, sizeof b, "r%d", id); return String(b, strlen(b)); }
static void fvr(int id, const String& s) { body(id, s); }          /* reference parameters: the call must still work on its own copy of what was given to start() */
static int fir(int id, const String& s) { body(id, s); return id * 7 + 1; }
static String fsr(int id, const String& s) { body(id, s); char b[32]; snprintf(b, sizeof b, "r%d", id); return String(b, strlen(b)); }
static void fv0() {}
struct Target { int base; int mi(int id) { body(id, String("c", 1) + String::fromInt(id)); return base + id; } void mv(int id) { body(id, String("c", 1) + String::fromInt(id)); } };

static void poolState(char* out, size_t n) {
  FP::ThreadPool* p = FP::_threadPool;
  if (!p) { snprintf(out, n, "no pool"); return; }
  snprintf(out, n, "queued=%zu threads=%zu enq(state=%zu,sig=%d) deq(state=%zu,sig=%d) pushed=%zu processed=%zu", (size_t)p->_queue.size(), (size_t)p->_threadCount, (size_t)p->_enqueuedSignal._state, (int)p->_enqueuedSignal._signal.signaled,
           (size_t)p->_dequeuedSignal._state, (int)p->_dequeuedSignal._signal.signaled, (size_t)p->_pushedJobs, (size_t)p->_processedJobs);
}

static void checkAfterJoin(int c, int f, const char* how) {
  Fut& F = C.fut[c][f];
  if (F.lastCall < 0) return;
  bool done; { Host h; done = C.call[F.lastCall].done; }
  if (!done) fail("C10/join_returned_before_completion", "%s on client %d future %d returned before call %d completed", how, c, f, F.lastCall);
  bool ab, fin;
  switch (F.type) { case 0: ab = ((Future<void>*)F.obj)->isAborted(); fin = ((Future<void>*)F.obj)->isFinished(); break; case 1: ab = ((Future<int>*)F.obj)->isAborted(); fin = ((Future<int>*)F.obj)->isFinished(); break; default: ab = ((Future<String>*)F.obj)->isAborted(); fin = ((Future<String>*)F.obj)->isFinished(); break; }
  bool crossPossible; { NoPreempt np; crossPossible = F.crossInflightAtStart || F.crossCount != F.crossAtStart; }   /* another thread was inside abort() when the latest start began, or called it since */
  if (ab && !F.abortReq && !crossPossible) fail("C10/aborted_without_request", "isAborted() after %s although abort() was never requested since start (call %d)", how, F.lastCall);
  if (!ab && !fin) fail("C10/not_finished_after_join", "neither isFinished() nor isAborted() after %s (call %d)", how, F.lastCall);
}

static void newFuture(Fut& F) { switch (F.type) { case 0: F.obj = new Future<void>; break; case 1: F.obj = new Future<int>; break; default: F.obj = new Future<String>; break; } F.lastCall = -1; F.abortReq = false; }
static void deleteFuture(Fut& F) { switch (F.type) { case 0: delete (Future<void>*)F.obj; break; case 1: delete (Future<int>*)F.obj; break; default: delete (Future<String>*)F.obj; break; } F.obj = 0; }

static void client(void* a) {
  int c = (int)(intptr_t)a;
  const RunSpec& s = *C.spec;
  char note[64];
  for (size_t n = 0; n < s.plan.size(); ++n) {
    const Op& op = s.plan[n];
    if (op.task != c) continue;
    int f = (int)(op.a[0] % 3); Fut& F = C.fut[c][f];
    snprintf(note, sizeof note, "client%d:%s f%d", c, opName(op.code), f); setTaskNote(note);
    logEvent("client_op", c, op.code, f);
    switch (op.code) {
    case O_START: {
      int id; { Host h; id = C.ncalls < MAXCALL ? C.ncalls++ : -1; if (id >= 0) { CallInfo& ci = C.call[id]; ci.kind = (int)(op.a[1] % 4); ci.param = (int)op.a[2]; ci.exec = 0; ci.done = false; ci.client = c; ci.fut = f; ci.futObj = F.obj; ci.futType = F.type; ci.argEchoBad = 0; ci.member = (op.a[3] % 3) == 0 && F.type != 2; } }
      if (id < 0) break;
      { NoPreempt np; if (!FP::_threadPool && FP::_threadPoolLock) C.lockWaiters++; }
      int prev = F.lastCall;
      { NoPreempt np; F.crossAtStart = F.crossCount; F.crossInflightAtStart = F.crossCount != F.crossDone; }
      char an[32]; snprintf(an, sizeof an, "c%d", id); String arg(an, strlen(an));
      bool member = (op.a[3] % 3) == 0;
      if (!member && (op.a[3] % 5) == 1) {   /* the function takes its argument by reference, and the caller's object is gone as soon as start() has returned */
        String* given = new String(an, strlen(an)); given->append(' '); given->resize(given->length() - 1);   /* (a counted payload of its own) */
        switch (F.type) { case 0: ((Future<void>*)F.obj)->start(&fvr, id, *given); break; case 1: ((Future<int>*)F.obj)->start(&fir, id, *given); break; default: ((Future<String>*)F.obj)->start(&fsr, id, *given); break; }
        given->clear(); given->append("overwritten by the caller", 25); delete given; probe("start_with_reference_parameter");
      } else
      switch (F.type) {
      case 0: if (member) ((Future<void>*)F.obj)->start(*C.target, &Target::mv, id); else ((Future<void>*)F.obj)->start(&fv, id, arg); break;
      case 1: if (member) ((Future<int>*)F.obj)->start(*C.target, &Target::mi, id); else ((Future<int>*)F.obj)->start(&fi, id, arg); break;
      default: ((Future<String>*)F.obj)->start(&fs, id, arg); break;
      }
      if (prev >= 0) { bool done; { Host h; done = C.call[prev].done; } if (!done) fail("C10/start_did_not_join_previous", "start on a running future returned before the previous call %d completed", prev); probe("start_on_started_future"); }
      F.lastCall = id; F.abortReq = false;
      break; }
    case O_JOIN: switch (F.type) { case 0: ((Future<void>*)F.obj)->join(); break; case 1: ((Future<int>*)F.obj)->join(); break; default: ((Future<String>*)F.obj)->join(); break; } checkAfterJoin(c, f, "join()"); break;
    case O_CONVERT:
      if (F.lastCall < 0) break;
      if (F.type == 1) { int v = *(Future<int>*)F.obj; checkAfterJoin(c, f, "conversion"); bool member; { Host h; member = C.call[F.lastCall].member; } int exp = member ? 1000 + F.lastCall : F.lastCall * 7 + 1; if (v != exp) fail("C10/wrong_result", "Future<int> conversion gave %d, the function returned %d (call %d)", v, exp, F.lastCall); }
      else if (F.type == 2) { String v = *(Future<String>*)F.obj; checkAfterJoin(c, f, "conversion"); char b[32]; snprintf(b, sizeof b, "r%d", F.lastCall); if (v.length() != strlen(b) || memcmp((const char*)v, b, strlen(b)) != 0) fail("C10/wrong_result", "Future<String> conversion gave a wrong value for call %d", F.lastCall); }
      break;
    case O_ABORT: switch (F.type) { case 0: ((Future<void>*)F.obj)->abort(); break; case 1: ((Future<int>*)F.obj)->abort(); break; default: ((Future<String>*)F.obj)->abort(); break; } if (F.lastCall >= 0) { F.abortReq = true; probe("abort_requested"); } break;
    case O_QUERY: switch (F.type) { case 0: (void)((Future<void>*)F.obj)->isFinished(); break; case 1: (void)((Future<int>*)F.obj)->isAborting(); break; default: (void)((Future<String>*)F.obj)->isAborted(); break; } break;
    case O_SLEEP: { static const int ms[] = {0, 1, 20, 900, 2500, 5000}; Thread::sleep(ms[op.a[1] % 6]); break; }
    case O_RECREATE: { bool busy; { NoPreempt np; busy = F.pins > 0; if (!busy) F.recreating = true; } if (busy) { probe("recreate_skipped_object_in_use_by_aborter"); break; } }
      deleteFuture(F); { if (F.lastCall >= 0) { bool done; { Host h; done = C.call[F.lastCall].done; } if (!done) fail("C10/destructor_returned_before_completion", "~Future returned before call %d completed", F.lastCall); } } newFuture(F); { NoPreempt np; F.recreating = false; } break;
    case O_WORK: for (volatile int i = 0; i < (int)(op.a[1] % 20); ++i) yieldMem(); break;
    case O_ABORTOTHER: { /* the controlling thread of an application cancels work that another thread started: abort() on a future this client does not own */
      if (C.nclients < 2) break; int t = (c + 1 + (int)(op.a[1] % (C.nclients - 1))) % C.nclients; Fut& G = C.fut[t][f]; void* obj = 0; int type = 0;
      { NoPreempt np; if (!G.recreating && G.obj) { obj = G.obj; type = G.type; G.pins++; G.crossCount++; } }
      if (!obj) break;
      switch (type) { case 0: ((Future<void>*)obj)->abort(); break; case 1: ((Future<int>*)obj)->abort(); break; default: ((Future<String>*)obj)->abort(); break; }
      { NoPreempt np; G.crossDone++; G.pins--; }
      probe("abort_from_another_thread"); break; }
    }
  }
  setTaskNote("");
}

static void mainTask(void*) {
  const RunSpec& s = *C.spec;
  if (simdrv::knob(s, "pool_mode", 0) == 1) {
    FP::_threadPool = new FP::ThreadPool((usize)simdrv::knob(s, "pool_min", 0), (usize)simdrv::knob(s, "pool_max", 3), (usize)simdrv::knob(s, "pool_queue", 4));
  }
  C.target = new Target; C.target->base = 1000;
  for (int c = 0; c < C.nclients; ++c) for (int f = 0; f < 3; ++f) { C.fut[c][f].type = f; newFuture(C.fut[c][f]); }
  for (int c = 0; c < C.nclients; ++c) C.taskIds[c] = spawn(client, (void*)(intptr_t)c, "client");
  for (int c = 0; c < C.nclients; ++c) joinTask(C.taskIds[c]);
  // destructors join
  for (int c = 0; c < C.nclients; ++c) for (int f = 0; f < 3; ++f) { Fut& F = C.fut[c][f]; char note[64]; snprintf(note, sizeof note, "main:~Future client%d f%d", c, f); setTaskNote(note); deleteFuture(F); if (F.lastCall >= 0) { bool done; { Host h; done = C.call[F.lastCall].done; } if (!done) fail("C10/destructor_returned_before_completion", "~Future returned before call %d completed", F.lastCall); } }
  for (int i = 0; i < C.ncalls; ++i) { int e; bool bad; { Host h; e = C.call[i].exec; bad = C.call[i].argEchoBad; } if (e != 1) fail("C10/not_executed_once", "call %d was executed %d times although its future was joined", i, e); if (bad) fail("C10/wrong_arguments", "call %d received other arguments than were passed to start", i); }
  delete C.target; C.target = 0;
  { FP::ThreadPool* p = FP::_threadPool; if (p) { uint64_t spawned = threadsCreated(); for (uint64_t i = 0; i < spawned; ++i) probe("worker_spawned"); uint64_t alive = p->_threadCount; for (uint64_t i = alive; i < spawned; ++i) probe("worker_retired"); if (p->_queue.capacity() <= 2 && C.ncalls > 4) probe("small_queue_many_calls"); } }
  setTaskNote("main:pool teardown");
  C.phase = 1;
  requestTail();
  delete FP::_threadPool; FP::_threadPool = 0;
  /* every worker the pool ever created has been joined by now: by the pool's clean-up of retired workers or by its destructor (a worker left behind keeps using the destroyed pool) */
  if (threadsNotJoined()) fail("C10/worker_not_joined", "%llu of the %llu worker threads created by the pool were never joined although the pool has been destroyed", (unsigned long long)threadsNotJoined(), (unsigned long long)threadsCreated());
  C.phase = 2;
}

static bool quiescence() {
  char ps[300]; poolState(ps, sizeof ps);
  if (C.phase == 1) { probe("pool_teardown_hang"); return true; }   // not part of the C10 verdict (DESIGN.md §4 C10)
  if (threadCreateFailureCount()) { probe("stuck_after_thread_creation_failure"); return true; }   /* the system refused to create a worker: the pool counts it nevertheless and the queued call may never run - resource exhaustion is outside the statement; only the safety clauses are judged in such runs */
  // a client (or main in a destructor) is blocked for ever
  std::string who; bool inStart = false, inJoin = false, inConv = false, inDtor = false;
  for (int t = 1; t <= numTasks(); ++t) if (isBlocked(t) && taskNote(t)[0]) {
    const char* n = taskNote(t); who += n; who += "; ";
    if (strstr(n, ":start")) inStart = true; else if (strstr(n, ":join")) inJoin = true; else if (strstr(n, ":convert")) inConv = true; else if (strstr(n, "~Future") || strstr(n, ":recreate")) inDtor = true;
  }
  FP::ThreadPool* p = FP::_threadPool;
  char cls[200];
  std::string ops = std::string(inJoin ? "join," : "") + (inConv ? "convert," : "") + (inDtor ? "destructor," : "") + (inStart ? "start," : "");
  if (p) snprintf(cls, sizeof cls, "C10/blocked_forever/%squeued=%s,enq_state=%zu,enq_sig=%d,deq_state=%zu,deq_sig=%d", ops.c_str(), p->_queue.size() ? "yes" : "no", (size_t)p->_enqueuedSignal._state, (int)p->_enqueuedSignal._signal.signaled, (size_t)p->_dequeuedSignal._state, (int)p->_dequeuedSignal._signal.signaled);
  else snprintf(cls, sizeof cls, "C10/blocked_forever/%sno_pool", ops.c_str());
  failSoft(cls, "no thread can run while calls are outstanding: %s pool: %s", who.c_str(), ps);
  return false;
}

static void finalize() {
  if (C.phase == 2) memCheckLeaks("C10/call_record_leaked");
}

static void generate(RunSpec& s, int tier) {
  uint64_t z = s.seed;
  auto r = [&](uint64_t n) { z += 0x9e3779b97f4a7c15ULL; uint64_t x = z; x = (x ^ (x >> 30)) * 0xbf58476d1ce4e5b9ULL; x = (x ^ (x >> 27)) * 0x94d049bb133111ebULL; x ^= x >> 31; return n ? x % n : x; };
  int nc = 1 + (int)r(4);
  bool churn = r(5) == 0;               /* pool churn: all four clients alternate bursts of starts (bodies that sleep keep workers busy) with idle periods long enough for workers to be retired, so that workers are created, retired and their records recycled concurrently */
  bool firstStartRace = !churn && r(6) == 0;      /* three or four clients whose first action is the process's first start(): they race through the lazy pool creation */
  if (firstStartRace) nc = 3 + (int)r(2);
  if (churn) nc = 3 + (int)r(2);
  bool abortStorm = !churn && !firstStartRace && r(8) == 0;   /* one thread starts and joins calls on a future in a loop while another keeps calling abort() on that future */
  if (abortStorm) nc = 2;
  s.knobs["clients"] = nc; s.knobs["pool_mode"] = (r(4) && !firstStartRace) ? 1 : 0; s.knobs["pool_min"] = r(3); s.knobs["pool_max"] = 3 + r(3); static const int qs[] = {1, 2, 4, 8}; s.knobs["pool_queue"] = qs[r(4)]; s.knobs["nproc"] = 1 + r(8);
  static const int memk[] = {3, 5, 7, 9, 255}; static const int synck[] = {0, 1, 2, 4};
  s.knobs["mem_switch_log2"] = memk[r(5)]; s.knobs["sync_switch_log2"] = synck[r(4)];
  static const int sp[] = {0, 0, 3, 15}; s.knobs["spurious_pct"] = sp[r(4)];
  static const int fz[] = {0, 0, 25, 60}; s.knobs["freeze_pct"] = fz[r(4)];
  s.knobs["thread_fail_pct"] = (r(8) == 0 && !churn) ? 30 : 0;   /* the system refuses to create some worker threads (EAGAIN) */
  if (churn && r(2)) { s.knobs["freeze_pct"] = 60; s.knobs["sync_switch_log2"] = 1 + r(2); s.knobs["mem_switch_log2"] = 255; }   /* half of the churn plans: pre-emption at calls only, pre-empted clients stay away long (several clients parked inside run() at once) */
  bool sleepy = r(3) == 0;
  for (int c = 0; c < nc; ++c) {
    int n = 2 + (int)r(7); if (churn) n = 7 + (int)r(5); if (abortStorm) n = 8 + (int)r(6);
    for (int i = 0; i < n; ++i) {
      Op o; o.task = c; o.a[0] = (int64_t)r(3); o.a[1] = (int64_t)r(1000); o.a[2] = (int64_t)r(1000); o.a[3] = (int64_t)r(1000);
      uint64_t k = r(100);
      o.code = k < 40 ? O_START : k < 58 ? O_JOIN : k < 68 ? O_CONVERT : k < (nc > 1 ? 72u : 76u) ? O_ABORT : k < 76 ? O_ABORTOTHER : k < 80 ? O_QUERY : k < (sleepy ? 94u : 84u) ? O_SLEEP : k < 97 ? O_RECREATE : O_WORK;
      if (o.code == O_SLEEP && sleepy) o.a[1] = 3 + r(3);
      if (firstStartRace && i == 0) o.code = O_START;
      if (churn) { /* synchronised bursts: every client runs start,start,(start),sleep 2.5 s,... so that the bursts of all clients coincide after each idle period */
        int ph = i % 4; if (ph < 3) { o.code = (ph == 2 && r(3) == 0) ? O_JOIN : O_START; o.a[0] = ph; if (r(2)) o.a[1] = 2 + 4 * (int64_t)r(100); } else { o.code = O_SLEEP; o.a[1] = 4; } }
      if (abortStorm) { o.a[0] = 0; if (c == 0) { o.code = (i % 2) ? O_JOIN : O_START; if (r(4) == 0) o.code = O_START; } else { o.code = r(4) ? O_ABORTOTHER : O_WORK; o.a[1] = 0; } }
      s.plan.push_back(o);
    }
  }
  (void)tier;
}

static Result execute(const RunSpec& s, bool keepLog) {
  Config cfg;
  cfg.mem_switch_log2 = (int)simdrv::knob(s, "mem_switch_log2", 6); cfg.sync_switch_log2 = (int)simdrv::knob(s, "sync_switch_log2", 2);
  cfg.rate[K_SPURIOUS] = simdrv::knob(s, "spurious_pct", 0) / 100.0; cfg.rate[K_THREADFAIL] = simdrv::knob(s, "thread_fail_pct", 0) / 100.0; cfg.freeze_pct = (int)simdrv::knob(s, "freeze_pct", 0);
  cfg.step_budget = 1500000; cfg.tail_budget_min = 400000; cfg.keep_log = keepLog;
  setProcessorCount((int)simdrv::knob(s, "nproc", 4));
  memset(&C, 0, sizeof C); C.spec = &s; C.nclients = (int)simdrv::knob(s, "clients", 1); if (C.nclients < 1) C.nclients = 1; if (C.nclients > 4) C.nclients = 4;
  FP::_threadPool = 0; FP::_threadPoolLock = 0;
  Hooks h; h.main_fn = mainTask; h.quiescence = quiescence; h.finalize = finalize;
  Result r = run(s, cfg, h);
  FP::_threadPool = 0; FP::_threadPoolLock = 0;
  if (condOpsAfterDestroy()) r.probes["cond_op_after_destroy"] += condOpsAfterDestroy();
  if (r.budget_exhausted && !r.violated) {
    // The fair, fault-free tail was exhausted with unfinished work.  While some task still sleeps towards a deadline the run is merely slow
    // (idle workers may busy-wait, see DESIGN.md O7, and simulated time then advances slowly): no verdict.  Otherwise nothing but the passage of
    // steps can change the state any more, every started function has long returned, and a client still inside start/join/convert/~Future is stuck.
    r.probes["tail_budget_exhausted"]++;
    bool sleeper = false; std::string who;
    for (int t = 1; t <= numTasks(); ++t) { if (taskFinished(t)) continue; if (isBlocked(t) && blockedDeadline(t) >= 0) sleeper = true; const char* n = taskNote(t); if (n[0] && (strstr(n, ":start") || strstr(n, ":join") || strstr(n, ":convert") || strstr(n, "~Future") || strstr(n, ":recreate"))) { who += n; who += isBlocked(t) ? " (blocked); " : " (running); "; } }
    if (getenv("SIM_DEBUG")) { fprintf(stderr, "TAILEXH seed=%llu steps=%llu phase=%d\n", (unsigned long long)s.seed, (unsigned long long)r.steps, C.phase); for (int t = 1; t <= numTasks(); ++t) fprintf(stderr, "  task %d %s finished=%d blocked=%d what=%s note=%s\n", t, taskName(t), (int)taskFinished(t), (int)isBlocked(t), blockedWhat(t), taskNote(t)); }
    if (C.phase == 0 && !sleeper && !who.empty() && !threadCreateFailureCount()) { r.violated = true; r.cls = "C10/no_progress"; r.detail = "the step budget of the fair fault-free tail ran out, no task waits for a deadline, every started function has returned, and still unfinished: " + who; }
    else r.probes["slow_run_no_verdict"]++;
  }
  r.probes[simdrv::knob(s, "pool_mode", 0) ? "pool_precreated" : "pool_lazy"]++;
  if (C.lockWaiters >= 2) r.probes["pool_creation_lock_contended_by_3"]++; else if (C.lockWaiters == 1) r.probes["pool_creation_lock_contended"]++;
  return r;
}

static simdrv::Harness H = {"C10", "c10_future", generate, execute, opName, nullptr, nullptr, "", ""};
int main(int argc, char** argv) { return simdrv::main(argc, argv, H); }
