// Stub conformance suite (DESIGN.md §6.5): the simulated POSIX layer is the trusted base of every verdict, so it is tested
// (a) against POSIX semantics inside the simulator and (b) differentially: the same timing-free call sequences are executed
// once on the real kernel (wrappers pass through outside a run) and once on simulated descriptors; results must be identical.
#include "sim.hpp"
#include <stdio.h>
#include <string.h>
#include <errno.h>
#include <unistd.h>
#include <fcntl.h>
#include <pthread.h>
#include <semaphore.h>
#include <time.h>
#include <sys/socket.h>
#include <sys/epoll.h>
#include <sys/eventfd.h>
#include <sys/select.h>
#include <sys/wait.h>
#include <netinet/in.h>
#include <arpa/inet.h>
#include <string>
#include <vector>

using namespace sim;

static std::vector<std::string>* rec;
static void R(const char* what, long v, int e = 0) { Host h; char b[128]; snprintf(b, sizeof b, "%s=%ld%s%s", what, v, e ? " errno=" : "", e ? strerror(e) : ""); rec->push_back(b); }
#define CALL(name, expr) do { errno = 0; long _v = (long)(expr); R(name, _v, _v < 0 ? errno : 0); } while (0)

// ------------------------------------------------------------------ differential scripts (run on real kernel and in the simulator)
static void scriptSockets() {
  int sv[2]; CALL("socketpair", socketpair(AF_UNIX, SOCK_STREAM, 0, sv)); fcntl(sv[0], F_SETFL, O_NONBLOCK); fcntl(sv[1], F_SETFL, O_NONBLOCK);
  char b[128]; memset(b, 'x', sizeof b);
  CALL("recv_empty", recv(sv[0], b, 10, 0)); CALL("send10", send(sv[1], b, 10, MSG_NOSIGNAL)); CALL("recv4", recv(sv[0], b, 4, 0)); CALL("recv100", recv(sv[0], b, 100, 0)); CALL("recv_empty2", recv(sv[0], b, 1, 0));
  int ep = epoll_create1(0); struct epoll_event ev, out[4]; ev.events = EPOLLIN | EPOLLRDHUP | EPOLLHUP; ev.data.u64 = 7;
  CALL("ctl_add", epoll_ctl(ep, EPOLL_CTL_ADD, sv[0], &ev)); CALL("ctl_add_again", epoll_ctl(ep, EPOLL_CTL_ADD, sv[0], &ev));
  CALL("wait_none", epoll_wait(ep, out, 4, 0));
  CALL("send3", send(sv[1], b, 3, MSG_NOSIGNAL)); CALL("wait_in", epoll_wait(ep, out, 4, 0)); R("ev_in", out[0].events); R("ev_data", (long)out[0].data.u64);
  CALL("wait_in_again(level)", epoll_wait(ep, out, 4, 0)); CALL("recv3", recv(sv[0], b, 100, 0)); CALL("wait_drained", epoll_wait(ep, out, 4, 0));
  ev.events = EPOLLOUT | EPOLLRDHUP | EPOLLHUP; CALL("ctl_mod_out", epoll_ctl(ep, EPOLL_CTL_MOD, sv[0], &ev)); CALL("wait_out", epoll_wait(ep, out, 4, 0)); R("ev_out", out[0].events);
  ev.events = 0; CALL("ctl_mod_none", epoll_ctl(ep, EPOLL_CTL_MOD, sv[0], &ev)); CALL("wait_mask0", epoll_wait(ep, out, 4, 0));
  CALL("send5_then_close_peer", send(sv[1], b, 5, MSG_NOSIGNAL)); close(sv[1]);
  CALL("wait_hup_mask0", epoll_wait(ep, out, 4, 0)); R("ev_hup_mask0", out[0].events);
  ev.events = EPOLLIN | EPOLLRDHUP | EPOLLHUP; epoll_ctl(ep, EPOLL_CTL_MOD, sv[0], &ev); CALL("wait_closed", epoll_wait(ep, out, 4, 0)); R("ev_closed", out[0].events);
  CALL("recv_rest", recv(sv[0], b, 100, 0)); CALL("recv_eof", recv(sv[0], b, 100, 0)); CALL("recv_eof_again", recv(sv[0], b, 100, 0)); CALL("send_to_closed", send(sv[0], b, 1, MSG_NOSIGNAL));
  CALL("ctl_del", epoll_ctl(ep, EPOLL_CTL_DEL, sv[0], &ev)); CALL("ctl_del_again", epoll_ctl(ep, EPOLL_CTL_DEL, sv[0], &ev)); CALL("wait_after_del", epoll_wait(ep, out, 4, 0));
  close(sv[0]); close(ep);
}
static void scriptEdge() {   /* edge-triggered registrations */
  int sv[2]; CALL("socketpair", socketpair(AF_UNIX, SOCK_STREAM, 0, sv)); fcntl(sv[0], F_SETFL, O_NONBLOCK); fcntl(sv[1], F_SETFL, O_NONBLOCK);
  char b[128]; memset(b, 'e', sizeof b);
  int ep = epoll_create1(0); struct epoll_event ev, out[4]; ev.events = EPOLLIN | EPOLLOUT | EPOLLET; ev.data.u64 = 9;
  CALL("et_add", epoll_ctl(ep, EPOLL_CTL_ADD, sv[0], &ev)); CALL("et_wait_after_add", epoll_wait(ep, out, 4, 0)); R("et_ev_after_add", out[0].events); CALL("et_wait_again", epoll_wait(ep, out, 4, 0));
  CALL("et_peer_send3", send(sv[1], b, 3, MSG_NOSIGNAL)); CALL("et_wait_in", epoll_wait(ep, out, 4, 0)); R("et_ev_in", out[0].events); CALL("et_wait_in_again", epoll_wait(ep, out, 4, 0));
  CALL("et_recv3", recv(sv[0], b, 100, 0)); CALL("et_wait_after_recv", epoll_wait(ep, out, 4, 0));
  CALL("et_peer_send2", send(sv[1], b, 2, MSG_NOSIGNAL)); CALL("et_peer_send2b", send(sv[1], b, 2, MSG_NOSIGNAL)); CALL("et_wait_two_sends", epoll_wait(ep, out, 4, 0)); R("et_ev_two_sends", out[0].events); CALL("et_wait_two_sends_again", epoll_wait(ep, out, 4, 0));
  CALL("et_mod", epoll_ctl(ep, EPOLL_CTL_MOD, sv[0], &ev)); CALL("et_wait_after_mod", epoll_wait(ep, out, 4, 0)); R("et_ev_after_mod", out[0].events); CALL("et_wait_after_mod_again", epoll_wait(ep, out, 4, 0));
  CALL("et_send10", send(sv[0], b, 10, MSG_NOSIGNAL)); CALL("et_wait_after_own_send", epoll_wait(ep, out, 4, 0));
  CALL("et_peer_recv10", recv(sv[1], b, 100, 0)); CALL("et_wait_after_peer_read", epoll_wait(ep, out, 4, 0)); if (out[0].events) R("et_ev_after_peer_read", out[0].events);
  close(sv[1]); CALL("et_wait_peer_closed", epoll_wait(ep, out, 4, 0)); R("et_ev_peer_closed", out[0].events); CALL("et_wait_peer_closed_again", epoll_wait(ep, out, 4, 0));
  close(sv[0]); close(ep);
}
static void scriptDupKeepsRegistration() {   /* an epoll registration belongs to the open file description, not to the descriptor number */
  int sv[2]; CALL("socketpair", socketpair(AF_UNIX, SOCK_STREAM, 0, sv)); fcntl(sv[0], F_SETFL, O_NONBLOCK);
  int d = 650; CALL("dup2", dup2(sv[0], d) == d ? 0 : -1);
  int ep = epoll_create1(0); struct epoll_event ev, out[4]; ev.events = EPOLLIN; ev.data.u64 = 5; char b[8] = {0};
  CALL("add", epoll_ctl(ep, EPOLL_CTL_ADD, sv[0], &ev)); CALL("close_registered_number", close(sv[0]));
  CALL("peer_send", send(sv[1], b, 3, MSG_NOSIGNAL)); CALL("wait_after_close", epoll_wait(ep, out, 4, 0)); R("data_after_close", (long)out[0].data.u64);
  CALL("del_closed_number", epoll_ctl(ep, EPOLL_CTL_DEL, sv[0], &ev));
  CALL("close_duplicate", close(d)); CALL("wait_after_last_close", epoll_wait(ep, out, 4, 0));
  close(sv[1]); close(ep);
}
static void scriptEventfd() {
  int e = eventfd(0, EFD_NONBLOCK); uint64_t v = 0; CALL("read_zero", read(e, &v, 8)); v = 1; CALL("write1", write(e, &v, 8)); v = 2; CALL("write2", write(e, &v, 8)); v = 0; CALL("read", read(e, &v, 8)); R("value", (long)v); CALL("read_again", read(e, &v, 8));
  int ep = epoll_create1(0); struct epoll_event ev, out[2]; ev.events = EPOLLIN | EPOLLRDHUP | EPOLLHUP; ev.data.ptr = 0; epoll_ctl(ep, EPOLL_CTL_ADD, e, &ev); CALL("wait_none", epoll_wait(ep, out, 2, 0)); v = 1; (void)!write(e, &v, 8); CALL("wait_in", epoll_wait(ep, out, 2, 0)); R("ev", out[0].events & EPOLLIN);
  close(e); close(ep);
}
static void scriptPipes() {
  int p[2]; CALL("pipe", pipe(p) == 0 ? 0 : -1); char b[64]; memset(b, 'y', sizeof b);
  CALL("write5", write(p[1], b, 5)); CALL("read3", read(p[0], b, 3)); CALL("read2", read(p[0], b, 10));
  fd_set s; FD_ZERO(&s); FD_SET(p[0], &s); struct timeval tv = {0, 1000}; CALL("select_empty", select(p[0] + 1, &s, 0, 0, &tv)); R("set_after_timeout", FD_ISSET(p[0], &s) ? 1 : 0); R("tv_after_timeout", tv.tv_sec * 1000000 + tv.tv_usec);
  CALL("write1", write(p[1], b, 1)); FD_ZERO(&s); FD_SET(p[0], &s); tv.tv_sec = 1; tv.tv_usec = 0; CALL("select_ready", select(p[0] + 1, &s, 0, 0, &tv)); R("set_ready", FD_ISSET(p[0], &s) ? 1 : 0);
  int d = dup(p[1]) ; (void)d; int w2 = 700; CALL("dup2", dup2(p[1], w2) == w2 ? 0 : -1); close(p[1]); if (d >= 0) close(d);
  CALL("read1", read(p[0], b, 10)); fcntl(p[0], F_SETFL, O_NONBLOCK); CALL("read_open_writer", read(p[0], b, 10)); close(w2); CALL("read_eof", read(p[0], b, 10));
  int q[2]; (void)!pipe(q); close(q[0]); signal(SIGPIPE, SIG_IGN); CALL("write_no_reader", write(q[1], b, 1)); close(q[1]); close(p[0]);
}
static void* tcpPeer(void* a) {
  int port = (int)(intptr_t)a; int fd = socket(AF_INET, SOCK_STREAM, 0); struct sockaddr_in sin; memset(&sin, 0, sizeof sin); sin.sin_family = AF_INET; sin.sin_port = htons((uint16_t)port); sin.sin_addr.s_addr = htonl(0x7f000001);
  if (connect(fd, (struct sockaddr*)&sin, sizeof sin) == 0) { char b[16] = "hello"; (void)!send(fd, b, 5, MSG_NOSIGNAL); (void)!recv(fd, b, 16, 0); }
  close(fd); return 0;
}
static void scriptTcp() {
  int ls = socket(AF_INET, SOCK_STREAM, 0); int one = 1; setsockopt(ls, SOL_SOCKET, SO_REUSEADDR, &one, sizeof one);
  struct sockaddr_in sin; memset(&sin, 0, sizeof sin); sin.sin_family = AF_INET; sin.sin_port = 0; sin.sin_addr.s_addr = htonl(0x7f000001);
  CALL("bind", bind(ls, (struct sockaddr*)&sin, sizeof sin)); CALL("listen", listen(ls, 4)); socklen_t l = sizeof sin; getsockname(ls, (struct sockaddr*)&sin, &l);
  pthread_t th; pthread_create(&th, 0, tcpPeer, (void*)(intptr_t)ntohs(sin.sin_port));
  int c = accept(ls, 0, 0); R("accepted", c >= 0); char b[16]; CALL("recv_hello", recv(c, b, 16, 0)); CALL("send_reply", send(c, b, 2, MSG_NOSIGNAL)); pthread_join(th, 0);
  { int ep = epoll_create1(0); struct epoll_event ev, out[2]; ev.events = EPOLLIN | EPOLLRDHUP | EPOLLHUP; ev.data.u64 = 1; epoll_ctl(ep, EPOLL_CTL_ADD, c, &ev); CALL("tcp_wait_peer_closed", epoll_wait(ep, out, 2, 0)); R("tcp_ev_peer_closed", out[0].events);
    ev.events = EPOLLOUT | EPOLLRDHUP | EPOLLHUP; epoll_ctl(ep, EPOLL_CTL_MOD, c, &ev); CALL("tcp_wait_out_peer_closed", epoll_wait(ep, out, 2, 0)); R("tcp_ev_out_peer_closed", out[0].events); close(ep); }
  CALL("recv_after_close", recv(c, b, 16, 0));
  int cl = socket(AF_INET, SOCK_STREAM, 0); close(ls); sin.sin_port = htons(1);   // nobody listens on port 1
  CALL("connect_refused", connect(cl, (struct sockaddr*)&sin, sizeof sin)); close(cl); close(c);
}

// ------------------------------------------------------------------ semantic tests inside the simulator
static pthread_mutex_t mx; static pthread_cond_t cv; static int flag, woken; static sem_t sem;
static void* waiter(void*) { pthread_mutex_lock(&mx); while (!flag) pthread_cond_wait(&cv, &mx); woken++; pthread_mutex_unlock(&mx); return 0; }
static void semanticTests() {
  // cond_wait releases and blocks atomically: a broadcast issued by the next thread to take the mutex always reaches the waiter
  pthread_mutex_init(&mx, 0); pthread_cond_init(&cv, 0); flag = 0; woken = 0;
  pthread_t a, b; pthread_create(&a, 0, waiter, 0); pthread_create(&b, 0, waiter, 0);
  usleep(1000);
  pthread_mutex_lock(&mx); flag = 1; pthread_mutex_unlock(&mx); pthread_cond_broadcast(&cv);
  pthread_join(a, 0); pthread_join(b, 0); R("both_waiters_released", woken);
  // timedwait returns ETIMEDOUT only at or after abstime
  struct timespec t0, ts, t1; clock_gettime(CLOCK_REALTIME, &t0); ts = t0; ts.tv_sec += 2; flag = 0;
  pthread_mutex_lock(&mx); int r = pthread_cond_timedwait(&cv, &mx, &ts); pthread_mutex_unlock(&mx); clock_gettime(CLOCK_REALTIME, &t1);
  R("timedwait_rc_is_ETIMEDOUT", r == ETIMEDOUT); R("timedwait_not_early", (t1.tv_sec > ts.tv_sec || (t1.tv_sec == ts.tv_sec && t1.tv_nsec >= ts.tv_nsec)) ? 1 : 0);
  // recursive mutex counts, trylock on a held default mutex fails
  pthread_mutexattr_t at; pthread_mutexattr_init(&at); pthread_mutexattr_settype(&at, PTHREAD_MUTEX_RECURSIVE); pthread_mutex_t rm; pthread_mutex_init(&rm, &at);
  R("recursive_lock1", pthread_mutex_lock(&rm)); R("recursive_lock2", pthread_mutex_lock(&rm)); R("recursive_unlock1", pthread_mutex_unlock(&rm)); R("recursive_unlock2", pthread_mutex_unlock(&rm)); R("recursive_unlock3_is_EPERM", pthread_mutex_unlock(&rm) == EPERM);
  pthread_mutex_lock(&mx); R("trylock_held_default_is_EBUSY", pthread_mutex_trylock(&mx) == EBUSY); pthread_mutex_unlock(&mx);
  // semaphore conserves its count
  sem_init(&sem, 0, 2); R("sem_try1", sem_trywait(&sem)); R("sem_try2", sem_trywait(&sem)); { errno = 0; int rc = sem_trywait(&sem); R("sem_try3_fails", rc, errno); } sem_post(&sem); R("sem_try4", sem_trywait(&sem));
  struct timespec st; clock_gettime(CLOCK_REALTIME, &st); st.tv_sec += 1; { errno = 0; int rc = sem_timedwait(&sem, &st); R("sem_timedwait_times_out", rc, errno); }
  pthread_mutex_destroy(&rm); pthread_mutex_destroy(&mx); pthread_cond_destroy(&cv); sem_destroy(&sem);
}

static void simMain(void* fn) { ((void (*)())fn)(); }
static std::vector<std::string> runSim(void (*fn)()) { std::vector<std::string> v; rec = &v; RunSpec s; s.seed = 1; s.replay = true; Config cfg; cfg.mem_switch_log2 = 255; cfg.sync_switch_log2 = 255; Hooks h; h.main_fn = simMain; h.main_arg = (void*)fn; Result r = run(s, cfg, h); if (r.violated) v.push_back("SIM VIOLATION " + r.cls + ": " + r.detail); return v; }
static std::vector<std::string> runReal(void (*fn)()) { std::vector<std::string> v; rec = &v; fn(); return v; }

int main() {
  int bad = 0;
  struct { const char* name; void (*fn)(); } diff[] = {{"sockets+epoll", scriptSockets}, {"edge-triggered epoll", scriptEdge}, {"dup keeps registration", scriptDupKeepsRegistration}, {"eventfd", scriptEventfd}, {"pipes+select+dup2", scriptPipes}, {"tcp loopback", scriptTcp}};
  for (auto& d : diff) {
    std::vector<std::string> real = runReal(d.fn);
    bool unavailable = false; for (auto& r : real) if (r.find("bind=-1") == 0 || r.find("socketpair=-1") == 0 || r.find("accepted=0") == 0) unavailable = true;
    if (unavailable) { printf("differential %-20s skipped: the real kernel facility is not available in this sandbox\n", d.name); continue; }
    std::vector<std::string> sim = runSim(d.fn);
    bool same = real == sim;
    printf("differential %-20s real kernel vs simulated kernel: %zu results, %s\n", d.name, real.size(), same ? "identical" : "DIFFERENT");
    if (!same) { bad++; for (size_t i = 0; i < real.size() || i < sim.size(); ++i) { std::string a = i < real.size() ? real[i] : "-", b = i < sim.size() ? sim[i] : "-"; if (a != b) printf("    real: %-50s sim: %s\n", a.c_str(), b.c_str()); } }
  }
  std::vector<std::string> sem = runSim(semanticTests);
  const char* expect[] = {"both_waiters_released=2", "timedwait_rc_is_ETIMEDOUT=1", "timedwait_not_early=1", "recursive_lock1=0", "recursive_lock2=0", "recursive_unlock1=0", "recursive_unlock2=0", "recursive_unlock3_is_EPERM=1", "trylock_held_default_is_EBUSY=1",
                          "sem_try1=0", "sem_try2=0", "sem_try3_fails=-1 errno=Resource temporarily unavailable", "sem_try4=0", "sem_timedwait_times_out=-1 errno=Connection timed out"};
  bool ok = sem.size() == sizeof expect / sizeof *expect; for (size_t i = 0; ok && i < sem.size(); ++i) ok = sem[i] == expect[i];
  printf("semantic tests of the pthread/sem stubs: %s\n", ok ? "pass" : "FAIL");
  if (!ok) { bad++; for (auto& s : sem) printf("    %s\n", s.c_str()); }
  printf(bad ? "STUB CONFORMANCE FAILED (%d)\n" : "stub conformance ok\n", bad);
  return bad ? 2 : 0;
}
