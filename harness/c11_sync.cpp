// C11: Mutex, Semaphore, Signal, Monitor and Thread keep their contracts — under every interleaving.
// Real code: /repo/src/{Mutex,Semaphore,Signal,Monitor,Thread}.cpp.  Stub: POSIX primitives (sim/sync.cpp), clock, scheduler.
#include <nstd/Mutex.hpp>
#include <nstd/Semaphore.hpp>
#include <nstd/Signal.hpp>
#include <nstd/Monitor.hpp>
#include <nstd/Thread.hpp>
#include "sim.hpp"
#include "driver.hpp"
#include "lin.hpp"
#include <stdio.h>
#include <string.h>

namespace sim { void setSemTimedwaitMissing(bool); uint64_t threadCreateFailureCount(); }
using namespace sim;

enum Prim { P_MUTEX = 0, P_SEM, P_SIGNAL, P_MONITOR, P_THREAD, P_N };
static const char* primName[] = {"mutex", "semaphore", "signal", "monitor", "thread"};
enum Code { MX_LOCK = 1, MX_TRYLOCK, MX_UNLOCK, SE_SIGNAL, SE_WAIT, SE_WAITT, SE_TRY, SG_SET, SG_RESET, SG_WAIT, SG_WAITT, MO_SET, MO_WAIT, MO_WAITT, TH_START, TH_JOIN, WORK, SLEEP, CODE_N };
static const char* codeName[] = {"?", "lock", "tryLock", "unlock", "sem.signal", "sem.wait", "sem.wait(t)", "sem.tryWait", "sig.set", "sig.reset", "sig.wait", "sig.wait(t)", "mon.set", "mon.wait", "mon.wait(t)", "thread.start", "thread.join", "work", "sleep"};
static const char* opName(int c) { return (c > 0 && c < CODE_N) ? codeName[c] : "?"; }
static const int64_t timeouts[] = {0, 1, 10, 300, 2500, 3000000000LL};   /* the last one does not fit 32 bits (34.7 days) */

struct Ctx {
  const RunSpec* spec; int prim; int ntasks;
  Mutex* mx; Semaphore* se; Signal* sg; Monitor* mo;
  volatile int* occ;                 // critical-section occupancy (arena memory: accesses are yield points)
  std::vector<lin::Op> hist; uint64_t seq;
  int pendingIdx[65];                // per sim task: index of its pending op, -1
  struct Thr { Thread* th; int64_t ret; uint64_t endSeq; bool ended; bool started; uint memberProc(); } thr[8];
  int workerTask[8];
};
static Ctx C;

static int beginOp(int wtask, int code, int64_t arg) {
  Host h;
  lin::Op o; o.task = wtask; o.code = code; o.arg = arg; o.result = -1; o.inv = ++C.seq; o.ret = ~0ULL; o.pending = true; o.inv_rt = realtimeNs(); o.ret_rt = 0;
  C.hist.push_back(o); int idx = (int)C.hist.size() - 1; C.pendingIdx[self()] = idx;
  char note[64]; snprintf(note, sizeof note, "w%d:%s", wtask, opName(code)); setTaskNote(note);
  return idx;
}
static void endOp(int idx, int result) {
  Host h; lin::Op& o = C.hist[idx]; o.ret = ++C.seq; o.ret_rt = realtimeNs(); o.result = result; o.pending = false; C.pendingIdx[self()] = -1; setTaskNote("");
}

static void spin(int n) { for (volatile int i = 0; i < n; ++i) { yieldMem(); } }

struct WArg { int w; };
static uint threadProc(void* p) {
  Ctx::Thr* t = (Ctx::Thr*)p;
  spin((int)(t->ret & 7));
  { Host h; t->endSeq = ++C.seq; t->ended = true; }
  return (uint)t->ret;
}

uint Ctx::Thr::memberProc() { return threadProc(this); }
static void worker(void* a) {
  int w = ((WArg*)a)->w;
  int depth = 0;
  const RunSpec& s = *C.spec;
  if (C.prim == P_MUTEX && simdrv::knob(s, "own_mutex", 0)) {
    /* every worker also constructs a Mutex of its own, concurrently with the others (the first primitives of the process may be constructed by
       several threads at once), and checks the owner's side of the contract on it: nobody else ever sees this object */
    spin((int)(simdrv::knob(s, "own_mutex", 0) >> (2 * w)) & 3);
    Mutex* own = new Mutex; probe("mutex_constructed_in_worker");
    own->lock();
    if (!own->tryLock()) fail("C11/mutex/not_reentrant", "worker %d: tryLock() on a mutex it already holds (constructed by itself, used by nobody else) failed", w);
    own->lock(); own->unlock(); own->unlock(); own->unlock();
    if (!own->tryLock()) fail("C11/mutex/trylock_free_failed", "worker %d: tryLock() on its own free mutex failed", w);
    own->unlock();
    delete own;
    while (!*(Mutex* volatile*)&C.mx) forceYield();
  }
  for (size_t i = 0; i < s.plan.size(); ++i) {
    const Op& op = s.plan[i];
    if (op.task != w) continue;
    int64_t t = timeouts[(op.a[0] < 0 ? 0 : op.a[0]) % (simdrv::knob(s, "no_sem_timedwait", 0) ? 5 : 6)];   /* (the polling fallback for platforms without sem_timedwait polls every 10 ms: 34 days of that is not a run) */
    switch (op.code) {
    case WORK: spin((int)(op.a[0] % 16)); break;
    case SLEEP: Thread::sleep(t); break;
    case MX_LOCK: if (C.prim == P_MUTEX && depth < 3) { int k = beginOp(w, MX_LOCK, 0); C.mx->lock(); endOp(k, 1); if (++depth == 1) { int v = *C.occ; *C.occ = v + 1; if (v != 0) fail("C11/mutex/mutual_exclusion", "worker %d entered the critical section while occupancy=%d", w, v); } } break;
    case MX_TRYLOCK: if (C.prim == P_MUTEX && depth < 3) { int k = beginOp(w, MX_TRYLOCK, 0); bool ok = C.mx->tryLock(); endOp(k, ok); if (ok && ++depth == 1) { int v = *C.occ; *C.occ = v + 1; if (v != 0) fail("C11/mutex/mutual_exclusion", "worker %d entered (tryLock) while occupancy=%d", w, v); } } break;
    case MX_UNLOCK: if (C.prim == P_MUTEX && depth > 0) { if (depth == 1) { int v = *C.occ; *C.occ = v - 1; if (v != 1) fail("C11/mutex/mutual_exclusion", "occupancy %d at unlock by worker %d", v, w); } --depth; int k = beginOp(w, MX_UNLOCK, 0); C.mx->unlock(); endOp(k, 1); } break;
    case SE_SIGNAL: if (C.prim == P_SEM) { int k = beginOp(w, SE_SIGNAL, 0); C.se->signal(); endOp(k, 1); } break;
    case SE_WAIT: if (C.prim == P_SEM) { int k = beginOp(w, SE_WAIT, 0); bool ok = C.se->wait(); endOp(k, ok); } break;
    case SE_WAITT: if (C.prim == P_SEM) { int k = beginOp(w, SE_WAITT, t); bool ok = C.se->wait(t); endOp(k, ok); } break;
    case SE_TRY: if (C.prim == P_SEM) { int k = beginOp(w, SE_TRY, 0); bool ok = C.se->tryWait(); endOp(k, ok); } break;
    case SG_SET: if (C.prim == P_SIGNAL) { int k = beginOp(w, SG_SET, 0); C.sg->set(); endOp(k, 1); } break;
    case SG_RESET: if (C.prim == P_SIGNAL) { int k = beginOp(w, SG_RESET, 0); C.sg->reset(); endOp(k, 1); } break;
    case SG_WAIT: if (C.prim == P_SIGNAL) { int k = beginOp(w, SG_WAIT, 0); bool ok = C.sg->wait(); endOp(k, ok); } break;
    case SG_WAITT: if (C.prim == P_SIGNAL) { int k = beginOp(w, SG_WAITT, t); bool ok = C.sg->wait(t); endOp(k, ok); } break;
    case MO_SET: if (C.prim == P_MONITOR) { int k = beginOp(w, MO_SET, 0); C.mo->set(); endOp(k, 1); } break;
    case MO_WAIT: if (C.prim == P_MONITOR) { Monitor::Guard g(*C.mo); int k = beginOp(w, MO_WAIT, 0); bool ok = g.wait(); endOp(k, ok); } break;
    case MO_WAITT: if (C.prim == P_MONITOR) { Monitor::Guard g(*C.mo); int k = beginOp(w, MO_WAITT, t); bool ok = g.wait(t); endOp(k, ok); } break;
    case TH_START: if (C.prim == P_THREAD) { Ctx::Thr& th = C.thr[w]; if (!th.started) { th.th = new Thread; th.ret = 1000 + op.a[0] % 1000; th.ended = false; th.started = true; uint64_t f0 = threadCreateFailureCount(); auto faultedThreadCreate = [&]() { return threadCreateFailureCount() != f0; }; int k = beginOp(w, TH_START, th.ret); bool ok = (op.a[0] % 2) ? th.th->start(th, &Ctx::Thr::memberProc) /* member-function form */ : th.th->start(threadProc, &th); endOp(k, ok);
      /* creation may fail for lack of resources (injected): the caller tries again, and a Thread object that was never started must still be startable */
      for (int tries = 0; !ok; ++tries) { if (!faultedThreadCreate() || tries >= 50) fail("C11/thread/start_failed", tries ? "Thread::start keeps returning false after a failed creation although threads can be created again" : "Thread::start returned false"); probe("thread_start_retried"); int k2 = beginOp(w, TH_START, th.ret); ok = (op.a[0] % 2) ? th.th->start(th, &Ctx::Thr::memberProc) : th.th->start(threadProc, &th); endOp(k2, ok); } } } break;
    case TH_JOIN: if (C.prim == P_THREAD) { Ctx::Thr& th = C.thr[w]; if (th.started) { int k = beginOp(w, TH_JOIN, th.ret); uint r = th.th->join(); endOp(k, (int)r); if (!th.ended) fail("C11/thread/join_before_end", "join returned before the thread function finished"); delete th.th; th.th = 0; th.started = false; } } break;
    }
  }
  if (C.prim == P_MUTEX) while (depth > 0) { if (depth == 1) { int v = *C.occ; *C.occ = v - 1; } --depth; int k = beginOp(w, MX_UNLOCK, 0); C.mx->unlock(); endOp(k, 1); }
  if (C.prim == P_THREAD && C.thr[w].started) { Ctx::Thr& th = C.thr[w]; int k = beginOp(w, TH_JOIN, th.ret); uint r = th.th->join(); endOp(k, (int)r); if (!th.ended) fail("C11/thread/join_before_end", "join returned before the thread function finished"); delete th.th; th.th = 0; th.started = false; }
}

static void mainTask(void*) {
  setSemTimedwaitMissing(simdrv::knob(*C.spec, "no_sem_timedwait", 0) != 0);
  const RunSpec& s = *C.spec;
  switch (C.prim) {
  case P_MUTEX: C.occ = new int(0); if (!simdrv::knob(s, "own_mutex", 0)) C.mx = new Mutex; break;   /* with own_mutex the shared one is constructed while the workers construct theirs */
  case P_SEM: C.se = new Semaphore((uint)simdrv::knob(s, "init", 0)); break;
  case P_SIGNAL: C.sg = new Signal(simdrv::knob(s, "init", 0) != 0); break;
  case P_MONITOR: C.mo = new Monitor; break;
  }
  static WArg args[8];
  for (int w = 0; w < C.ntasks; ++w) { args[w].w = w; C.workerTask[w] = spawn(worker, &args[w], "worker"); }
  if (C.prim == P_MUTEX && !C.mx) { Mutex* m = new Mutex; C.mx = m; }
  for (int w = 0; w < C.ntasks; ++w) joinTask(C.workerTask[w]);
  delete C.mx; delete C.se; delete C.sg; delete C.mo; delete C.occ; C.mx = 0; C.se = 0; C.sg = 0; C.mo = 0; C.occ = 0;
}

// ------------------------------------------------------------------ sequential models
static bool applyMutex(const lin::Op& o, lin::State& s) {   // a = owner+1 (0 free), b = depth
  int64_t me = o.task + 1;
  switch (o.code) {
  case MX_LOCK: if (s.a != 0 && s.a != me) return false; s.a = me; s.b++; return true;
  case MX_TRYLOCK: if (o.result) { if (s.a != 0 && s.a != me) return false; s.a = me; s.b++; return true; } return s.a != 0 && s.a != me;
  case MX_UNLOCK: if (s.a != me) return false; if (--s.b == 0) s.a = 0; return true;
  }
  return true;
}
static bool applySem(const lin::Op& o, lin::State& s) {     // a = count
  switch (o.code) {
  case SE_SIGNAL: s.a++; return true;
  case SE_WAIT: case SE_WAITT: case SE_TRY: if (o.pending || o.result) { if (s.a <= 0) return false; s.a--; } return true;
  }
  return true;
}
static bool applySignal(const lin::Op& o, lin::State& s) {  // a = set
  switch (o.code) {
  case SG_SET: s.a = 1; return true;
  case SG_RESET: s.a = 0; return true;
  case SG_WAIT: case SG_WAITT: if (o.pending || o.result) return s.a == 1; return true;
  }
  return true;
}
static bool applyMonitor(const lin::Op& o, lin::State& s) { // a = sets - successful waits
  switch (o.code) {
  case MO_SET: s.a++; return true;
  case MO_WAIT: case MO_WAITT: if (o.pending || o.result) { if (s.a <= 0) return false; s.a--; } return true;
  }
  return true;
}
static bool applyNone(const lin::Op&, lin::State&) { return true; }
static lin::ApplyFn applyFor(int prim) { switch (prim) { case P_MUTEX: return applyMutex; case P_SEM: return applySem; case P_SIGNAL: return applySignal; case P_MONITOR: return applyMonitor; } return applyNone; }
static lin::State initState() { lin::State s = {0, 0}; if (C.prim == P_SEM || C.prim == P_SIGNAL) s.a = simdrv::knob(*C.spec, "init", 0); return s; }

static std::string histText() {
  std::string o;
  for (auto& h : C.hist) { char b[120]; snprintf(b, sizeof b, "[w%d %s(%lld)=%d %llu..%s] ", h.task, opName(h.code), (long long)h.arg, h.result, (unsigned long long)h.inv, h.pending ? "pending" : std::to_string(h.ret).c_str()); o += b; }
  return o;
}

// no runnable task, no timer: is every blocked task legitimately blocked?
static bool quiescence() {
  char cls[96];
  std::vector<int> pend;
  for (int t = 1; t <= numTasks(); ++t) if (isBlocked(t) && C.pendingIdx[t] >= 0) pend.push_back(C.pendingIdx[t]);
  if (pend.empty()) return false;   // blocked somewhere else (e.g. harness join on a stuck worker is secondary) -> generic deadlock unless workers pending
  if (C.prim == P_MONITOR) {
    // wake rule: a set() issued after a (forever blocked) waiter entered wait must be followed by the return of a successful wait
    for (int pi : pend) {
      const lin::Op& w = C.hist[pi]; if (w.code != MO_WAIT) continue;
      uint64_t lastSet = 0;
      for (auto& o : C.hist) if (o.code == MO_SET && o.inv > w.inv && o.inv > lastSet) lastSet = o.inv;
      if (!lastSet) continue;
      bool served = false;
      for (auto& o : C.hist) if ((o.code == MO_WAIT || o.code == MO_WAITT) && !o.pending && o.result && o.ret > lastSet) served = true;
      if (!served) { snprintf(cls, sizeof cls, "C11/monitor/set_released_nobody"); failSoft(cls, "worker %d blocked in Monitor::wait although set() was issued after it began waiting; history: %s", w.task, histText().c_str()); return false; }
    }
    return true;
  }
  if (C.prim == P_THREAD) {
    for (int pi : pend) { const lin::Op& j = C.hist[pi]; if (j.code == TH_JOIN && C.thr[j.task].ended) { failSoft("C11/thread/join_blocked_after_end", "join blocked although thread function ended"); return false; } }
    return false;
  }
  std::set<lin::State> finals;
  bool ok = lin::check(C.hist, applyFor(C.prim), initState(), false, &finals);
  if (!ok) return true; // not linearizable: reported by finalize()
  for (const lin::State& f : finals) {
    bool allDisabled = true;
    for (int pi : pend) {
      const lin::Op& p = C.hist[pi]; lin::State s = f;
      bool enabled;
      if (p.code == MX_UNLOCK || p.code == SE_SIGNAL || p.code == SG_SET || p.code == SG_RESET || p.code == MX_TRYLOCK || p.code == SE_TRY) enabled = true;  // these never block
      else enabled = applyFor(C.prim)(p, s);
      if (enabled) { allDisabled = false; break; }
    }
    if (allDisabled) return true;
  }
  const lin::Op& p = C.hist[pend[0]];
  const char* what = C.prim == P_MUTEX ? "blocked_while_free" : C.prim == P_SEM ? "blocked_while_positive" : "blocked_while_set";
  snprintf(cls, sizeof cls, "C11/%s/%s", primName[C.prim], what);
  failSoft(cls, "worker %d stays blocked in %s although every linearisation of the completed operations leaves it enabled; history: %s", p.task, opName(p.code), histText().c_str());
  return false;
}

static void finalize() {
  char cls[96];
  // time-out rule
  for (auto& o : C.hist) if (!o.pending && (o.code == SE_WAITT || o.code == SG_WAITT || o.code == MO_WAITT) && !o.result) {
    if (o.ret_rt - o.inv_rt < o.arg * 1000000LL) { snprintf(cls, sizeof cls, "C11/%s/timed_wait_early", primName[C.prim]); failSoft(cls, "%s(%lld ms) by worker %d returned false after %lld ns", opName(o.code), (long long)o.arg, o.task, (long long)(o.ret_rt - o.inv_rt)); return; }
  }
  if (C.prim == P_THREAD) {
    for (auto& o : C.hist) if (o.code == TH_JOIN && !o.pending) {
      if (o.result != (int)o.arg) { failSoft("C11/thread/join_result", "join returned %d, thread function returned %lld", o.result, (long long)o.arg); return; }
    }
    // join must return after the function ended: endSeq < ret — checked via ended flag at endOp time is implicit: verify stamps
    return;
  }
  uint64_t nodes = 0;
  if (!lin::check(C.hist, applyFor(C.prim), initState(), true, nullptr, &nodes)) {
    snprintf(cls, sizeof cls, "C11/%s/not_linearizable", primName[C.prim]);
    failSoft(cls, "history has no valid linearisation: %s", histText().c_str());
  }
}

// ------------------------------------------------------------------ generation
static void generate(RunSpec& s, int tier) {
  uint64_t z = s.seed;
  auto r = [&](uint64_t n) { z += 0x9e3779b97f4a7c15ULL; uint64_t x = z; x = (x ^ (x >> 30)) * 0xbf58476d1ce4e5b9ULL; x = (x ^ (x >> 27)) * 0x94d049bb133111ebULL; x ^= x >> 31; return n ? x % n : x; };
  int prim = (int)r(P_N); int nt = 2 + (int)r(3);
  s.knobs["prim"] = prim; s.knobs["ntasks"] = nt; s.knobs["init"] = (prim == P_SEM) ? r(3) : (prim == P_SIGNAL ? r(2) : 0);
  static const int memk[] = {2, 4, 6, 8, 255}; static const int synck[] = {0, 1, 2, 4};
  s.knobs["mem_switch_log2"] = memk[r(5)]; s.knobs["sync_switch_log2"] = synck[r(4)];
  static const int sp[] = {0, 0, 5, 30}; s.knobs["spurious_pct"] = sp[r(4)]; s.knobs["wakeorder_pct"] = r(2) ? 50 : 0; s.knobs["eintr_pct"] = r(3) == 0 ? 10 : 0;
  s.knobs["rt_phase_ms"] = r(1000);
  s.knobs["thread_fail_pct"] = (prim == P_THREAD && r(2)) ? 25 : 0;
  s.knobs["own_mutex"] = (prim == P_MUTEX && r(2)) ? 1 + r(255) : 0;
  s.knobs["no_sem_timedwait"] = (prim == P_SEM && r(5) == 0) ? 1 : 0;      /* a fifth of the semaphore runs: platform without sem_timedwait (polling fallback) */
  int maxOps = 6, total = 0;
  for (int w = 0; w < nt; ++w) {
    int n = 1 + (int)r(maxOps);
    for (int i = 0; i < n && total < 22; ++i, ++total) {
      Op o; o.task = w; o.a[0] = (int64_t)r(1000); o.a[1] = o.a[2] = o.a[3] = 0;
      uint64_t k = r(100);
      switch (prim) {
      case P_MUTEX: o.code = k < 35 ? MX_LOCK : k < 50 ? MX_TRYLOCK : k < 85 ? MX_UNLOCK : WORK; break;
      case P_SEM: o.code = k < 35 ? SE_SIGNAL : k < 55 ? SE_WAIT : k < 75 ? SE_WAITT : k < 90 ? SE_TRY : SLEEP; break;
      case P_SIGNAL: o.code = k < 25 ? SG_SET : k < 45 ? SG_RESET : k < 65 ? SG_WAIT : k < 88 ? SG_WAITT : SLEEP; break;
      case P_MONITOR: o.code = k < 35 ? MO_SET : k < 60 ? MO_WAIT : k < 85 ? MO_WAITT : SLEEP; break;
      default: o.code = k < 40 ? TH_START : k < 80 ? TH_JOIN : WORK; break;
      }
      s.plan.push_back(o);
    }
  }
  (void)tier;
}

static Result execute(const RunSpec& s, bool keepLog) {
  Config cfg;
  cfg.mem_switch_log2 = (int)simdrv::knob(s, "mem_switch_log2", 6); cfg.sync_switch_log2 = (int)simdrv::knob(s, "sync_switch_log2", 2);
  cfg.rate[K_SPURIOUS] = simdrv::knob(s, "spurious_pct", 0) / 100.0; cfg.rate[K_WAKEORDER] = simdrv::knob(s, "wakeorder_pct", 0) / 100.0; cfg.rate[K_EINTR] = simdrv::knob(s, "eintr_pct", 0) / 100.0; cfg.rate[K_THREADFAIL] = simdrv::knob(s, "thread_fail_pct", 0) / 100.0;
  cfg.real_phase_ns = simdrv::knob(s, "rt_phase_ms", 0) * 1000000LL;
  cfg.step_budget = 400000; cfg.keep_log = keepLog;
  C.spec = &s; C.prim = (int)simdrv::knob(s, "prim", 0) % P_N; C.ntasks = (int)simdrv::knob(s, "ntasks", 2); if (C.ntasks < 1) C.ntasks = 1; if (C.ntasks > 4) C.ntasks = 4;
  C.mx = 0; C.se = 0; C.sg = 0; C.mo = 0; C.occ = 0; C.hist.clear(); C.seq = 0; memset(C.pendingIdx, -1, sizeof C.pendingIdx); memset(C.thr, 0, sizeof C.thr);
  Hooks h; h.main_fn = mainTask; h.quiescence = quiescence; h.finalize = finalize;
  Result r = run(s, cfg, h);
  r.probes[std::string("prim_") + primName[C.prim]]++;
  for (auto& o : C.hist) { if (!o.pending && !o.result && (o.code == SE_WAITT || o.code == SG_WAITT || o.code == MO_WAITT)) r.probes["timed_wait_timed_out"]++; if (o.pending) r.probes["op_left_pending"]++; }
  return r;
}

static simdrv::Harness H = {"C11", "c11_sync", generate, execute, opName, nullptr, nullptr,
  "src/Mutex.cpp src/Semaphore.cpp src/Signal.cpp src/Monitor.cpp src/Thread.cpp (+headers)",
  "pthread mutex/cond/sem/create/join, clock_gettime, usleep (sim/sync.cpp); scheduler; allocator"};
int main(int argc, char** argv) { return simdrv::main(argc, argv, H); }
