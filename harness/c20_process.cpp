// C20: child processes get exact arguments, streams and exit codes; option parsing follows getopt rules.
// Real code: src/Process.cpp (parent side AND the code the vfork child executes before exec), String, List, Map, Array.
// Stub: process + pipe kernel model (sim/proc.cpp, sim/net.cpp), the child PROGRAMS (scripted tasks), select, clock.
#include <nstd/Process.hpp>
#include <nstd/String.hpp>
#include <nstd/List.hpp>
#include <nstd/Map.hpp>
#include "sim.hpp"
#include "driver.hpp"
#include "proc.hpp"
#include "net.hpp"
#include <stdio.h>
#include <string.h>
#include <unistd.h>
#include <string>
#include <vector>

using namespace sim;
extern char** environ;

enum Code { P_OPEN = 1, P_READ, P_READ2, P_WRITE, P_CLOSE, P_SLEEP, C_WOUT, C_WERR, C_SLEEP, C_ECHO, C_CLOSE, A_PARSE, CODE_N };
static const char* codeName[] = {"?", "open", "read", "read(streams)", "write", "close", "sleep", "child.write_stdout", "child.write_stderr", "child.sleep", "child.echo_stdin", "child.close", "arguments"};
static const char* opName(int c) { return (c > 0 && c < CODE_N) ? codeName[c] : "?"; }

static inline unsigned char codeByte(int stream, uint64_t off) { uint64_t x = off * 0x9e3779b97f4a7c15ULL + (uint64_t)stream * 0xbf58476d1ce4e5b9ULL; x ^= x >> 29; x *= 0x94d049bb133111ebULL; x ^= x >> 32; return (unsigned char)x; }

struct Ctx {
  const RunSpec* spec; Process* proc; unsigned streams; bool opened; int pid;
  uint64_t childOut, childErr, childIn, parentOut, parentErr, parentIn; bool outEof, errEof, childSawEof, childDone; int exitCode; bool stdinClosed;
  std::string expProgram; std::vector<std::string> expArgv, expEnv; bool expParentEnv;
  bool parentDone;
  Process* proc2; int pid2; unsigned streams2; uint64_t c2Out, c2Err, p2Out, p2Err; int watermark;
};
static Ctx C;
static String S(const std::string& s) { return String(s.c_str(), s.size()); }

// ------------------------------------------------------------------ scripted child program
static bool childHasFd(simproc::Child* c, int fd) { NoPreempt np; return c->table.m.count(fd) != 0; }   /* (the table is the simulator's: read it atomically - kill() empties it) */
static void childProgram(simproc::Child* c) {
  const RunSpec& s = *C.spec; unsigned char buf[4096];
  if (c->pid == C.pid2 || (C.pid && c->pid != C.pid)) {   // the second, simple process: 100 bytes on each redirected output, exit code 5
    for (int fd = 1; fd <= 2; ++fd) if (childHasFd(c, fd)) { uint64_t& cnt = fd == 1 ? C.c2Out : C.c2Err; for (int q = 0; q < 100; ++q) buf[q] = codeByte(10 + fd, cnt + q); ssize_t r = write(fd, buf, 100); if (r > 0) { NoPreempt np; cnt += r; } }
    c->exitCode = 5; return;
  }
  bool hasOut = childHasFd(c, 1), hasErr = childHasFd(c, 2), hasIn = childHasFd(c, 0);
  for (size_t i = 0; i < s.plan.size() && !simproc::childKilled(c); ++i) {
    const Op& op = s.plan[i]; if (op.task != 1) continue;
    switch (op.code) {
    case C_WOUT: case C_WERR: {
      int fd = op.code == C_WOUT ? 1 : 2; if (!(fd == 1 ? hasOut : hasErr)) break;
      size_t total = (size_t)(op.a[0] % 9000), chunk = 1 + (size_t)(op.a[1] % 3000);
      uint64_t& cnt = fd == 1 ? C.childOut : C.childErr;
      while (total > 0 && !simproc::childKilled(c)) { size_t n = total < chunk ? total : chunk; for (size_t q = 0; q < n; ++q) buf[q] = codeByte(fd, cnt + q); ssize_t r = write(fd, buf, n); if (r < 0 && errno == EPIPE) { /* nobody can read this pipe any more: the default action of SIGPIPE ends the child */ probe("child_killed_by_sigpipe"); c->exited = true; c->status = 13; C.childDone = true; return; } if (r <= 0) { total = 0; break; } { NoPreempt np; cnt += r; } total -= r; }
      break; }
    case C_SLEEP: { static const int64_t ms[] = {0, 1, 50, 2000, 999000, 1001000, 1800000}; sleepNs(ms[op.a[0] % 7] * 1000000LL); break; }
    case C_ECHO: {
      if (!hasIn) break;
      for (;;) { ssize_t r = read(0, buf, 1 + op.a[0] % 2000); if (r <= 0) { if (r == 0) C.childSawEof = true; break; }
        { NoPreempt np; for (ssize_t q = 0; q < r; ++q) if (buf[q] != codeByte(0, C.childIn + q)) fail("C20/stdin_bytes_differ", "child read a byte on stdin (offset %llu) that the parent did not write there", (unsigned long long)(C.childIn + q)); if (C.childIn + r > C.parentIn + 0 && C.childIn + r > C.parentIn + 100000) {} C.childIn += r; }
        if (hasOut && op.a[1] % 2 == 0) { for (ssize_t q = 0; q < r; ++q) buf[q] = codeByte(1, C.childOut + q); ssize_t w = write(1, buf, r); if (w > 0) { NoPreempt np; C.childOut += w; } }
        if (simproc::childKilled(c)) break; }
      break; }
    case C_CLOSE: { int fd = (int)(op.a[0] % 3); if (childHasFd(c, fd)) { close(fd); if (fd == 1) hasOut = false; else if (fd == 2) hasErr = false; else hasIn = false; } break; }
    }
  }
  c->exitCode = (int)simdrv::knob(s, "exit_code", 0);
  C.childDone = true;
}

// ------------------------------------------------------------------ expectations for the exec image
static std::vector<std::string> refSplit(const std::string& cmd) {   // words separated by single spaces; double-quoted segments; \" inside them
  std::vector<std::string> out; std::string cur; bool any = false;
  for (size_t i = 0; i < cmd.size();) {
    char ch = cmd[i];
    if (ch == '"') { ++i; any = true; while (i < cmd.size() && cmd[i] != '"') { if (cmd[i] == '\\' && i + 1 < cmd.size() && cmd[i + 1] == '"') { cur += '"'; i += 2; } else cur += cmd[i++]; } if (i < cmd.size()) ++i; }
    else if (ch == ' ') { out.push_back(cur); cur.clear(); any = false; ++i; }
    else { cur += ch; any = true; ++i; }
  }
  if (any || !cur.empty()) out.push_back(cur);
  return out;
}
static const char* words[] = {"prog", "a", "-x", "file.txt", "b c", "say \"hi\"", "--opt=1", "q", ""};   /* the last one: an empty argument, written "" on a command line */
static std::string quote(const std::string& w) { if (!w.empty() && w.find(' ') == std::string::npos && w.find('"') == std::string::npos) return w; std::string o = "\""; for (char ch : w) { if (ch == '"') o += "\\\""; else o += ch; } return o + "\""; }

static void checkImage(simproc::Child* c) {
  Host h;
  if (c->program != C.expProgram) fail("C20/exec_program", "child executes '%s', expected '%s'", c->program.c_str(), C.expProgram.c_str());
  if (c->argv != C.expArgv) { std::string a, b; for (auto& s : c->argv) a += "[" + s + "]"; for (auto& s : C.expArgv) b += "[" + s + "]"; fail("C20/exec_argv", "child received argv %s, expected %s", a.c_str(), b.c_str()); }
  if (C.expParentEnv ? !c->envIsParentEnviron : (c->envIsParentEnviron || c->envp != C.expEnv)) { std::string a; for (auto& s : c->envp) a += "[" + s + "]"; std::string b; for (auto& s : C.expEnv) b += "[" + s + "]"; fail("C20/exec_environment", "child received environment %s%s, expected %s%s", c->envIsParentEnviron ? "(the parent's)" : "", a.c_str(), C.expParentEnv ? "(the parent's)" : "", b.c_str()); }
  // descriptors at the moment of exec: exactly the requested streams are redirected, no end of this process' own pipes leaks into the child
  auto& fd = c->fdsAtExec;
  bool o = fd.count(1) != 0, e = fd.count(2) != 0, i = fd.count(0) != 0;
  if (o != ((C.streams & Process::stdoutStream) != 0) || e != ((C.streams & Process::stderrStream) != 0) || i != ((C.streams & Process::stdinStream) != 0)) fail("C20/stream_redirection", "stream mask %u but the child has stdout=%d stderr=%d stdin=%d redirected", C.streams, o, e, i);
  if (o && fd[1].first != simnet::FK_PIPE_W) fail("C20/stream_redirection", "child's stdout is not the write end of a pipe");
  if (e && fd[2].first != simnet::FK_PIPE_W) fail("C20/stream_redirection", "child's stderr is not the write end of a pipe");
  if (i && fd[0].first != simnet::FK_PIPE_R) fail("C20/stream_redirection", "child's stdin is not the read end of a pipe");
  if (o && e && fd[1].second == fd[2].second) fail("C20/stream_redirection", "child's stdout and stderr are the same pipe");
  for (auto& kv : fd) if (kv.first > 2 && kv.second.second >= C.watermark) fail("C20/pipe_end_leaked_into_child", "descriptor %d (an end of this process' own pipes) is still open in the child at exec", kv.first);
}

static void peerCheckParentRead(int stream, const unsigned char* b, ssize_t r) {
  NoPreempt np; uint64_t& got = stream == 1 ? C.parentOut : C.parentErr; uint64_t wrote = stream == 1 ? C.childOut : C.childErr;
  for (ssize_t q = 0; q < r; ++q) if (b[q] != codeByte(stream, got + q)) fail("C20/output_bytes_differ", "parent read a byte from the child's %s (offset %llu) that the child did not write there", stream == 1 ? "stdout" : "stderr", (unsigned long long)(got + q));
  got += r; (void)wrote;
}

// ------------------------------------------------------------------ Process::Arguments (pure clause, rides along)
static const Process::Option optTable[] = { {'a', "alpha", Process::optionFlag}, {'b', "bravo", Process::optionFlag}, {'o', "out", Process::argumentFlag}, {'v', 0, Process::optionFlag}, {1000, "longonly", Process::argumentFlag} };
static const char* argWords[] = {"-a", "-b", "-o", "-ab", "-abo", "-ofile", "--alpha", "--out", "--out=v", "--", "-", "x", "-z", "--zeta", "-aofile", "-bz", "--longonly=7", "--longonly", "file", "-v", "--zeta=1", "-ao", "--out=", "--longonly=", "--outx", "--alphabet", "--outer=7", "--longonlyx", "--out-dir", "--bravo2=1", ""};   /* the last six extend a known name: unknown options, not prefixes of known ones; the very last: an empty argument (a positional one, or the value of the option in front of it) */
struct Parsed { int ch; std::string arg; bool operator==(const Parsed& o) const { return ch == o.ch && arg == o.arg; } };
static std::vector<Parsed> refParse(const std::vector<std::string>& av) {   // av[0] is the program name
  std::vector<Parsed> out; bool skip = false;
  for (size_t i = 1; i < av.size(); ++i) {
    const std::string& w = av[i];
    if (skip || w.size() < 1 || w[0] != '-') { out.push_back({0, w}); continue; }
    if (w == "-") { out.push_back({0, "-"}); continue; }
    if (w == "--") { skip = true; continue; }
    if (w[1] == '-') {
      std::string name = w.substr(2), val; bool hasVal = false; size_t eq = name.find('='); if (eq != std::string::npos) { val = name.substr(eq + 1); name = name.substr(0, eq); hasVal = true; }
      const Process::Option* opt = 0; for (auto& o : optTable) if (o.name && name == o.name) opt = &o;
      if (!opt) { out.push_back({'?', w}); continue; }
      if (opt->flags & Process::argumentFlag) { if (hasVal) out.push_back({opt->character, val}); else if (i + 1 < av.size()) out.push_back({opt->character, av[++i]}); else out.push_back({':', "--" + name}); }
      else out.push_back({opt->character, ""});
      continue;
    }
    for (size_t k = 1; k < w.size(); ++k) {
      char c = w[k]; const Process::Option* opt = 0; for (auto& o : optTable) if (o.character == c) opt = &o;
      if (!opt) { out.push_back({'?', std::string("-") + c}); continue; }
      if (opt->flags & Process::argumentFlag) { if (k + 1 < w.size()) out.push_back({c, w.substr(k + 1)}); else if (i + 1 < av.size()) out.push_back({c, av[++i]}); else out.push_back({':', std::string("-") + c}); break; }
      out.push_back({c, ""});
    }
  }
  return out;
}
static void argumentsOp(uint64_t seed) {
  std::vector<std::string> av; { Host h; av.push_back("prog"); int n = (int)(seed % 6); seed /= 6; for (int i = 0; i < n; ++i) { av.push_back(argWords[seed % 31]); seed /= 31; } if (seed % 13 == 12) { av.clear(); probe("empty_argument_vector"); } }   /* argc == 0: what execve(path, {NULL}, envp) hands to a program */
  // every argv[i] lives in an exactly sized arena block: reading past a terminator is caught by the shadow; the vector itself ends with the NULL entry argv[argc]
  int argc = (int)av.size(); char** argv = new char*[argc + 1]; argv[argc] = 0;
  for (int i = 0; i < argc; ++i) { argv[i] = new char[av[i].size() + 1]; memcpy(argv[i], av[i].c_str(), av[i].size() + 1); }
  std::vector<Parsed> got;
  { Process::Arguments args(argc, argv, optTable); int ch; String a; int guard = 0; while (args.read(ch, a) && ++guard < 64) { Host h; got.push_back({ch, std::string((const char*)a, a.length())}); } if (guard >= 64) fail("C20/arguments_no_end", "Process::Arguments::read did not stop after 64 results"); }
  { Host h; std::vector<Parsed> exp = refParse(av);
    if (!(got == exp)) { std::string g, x, in; for (auto& p : got) g += "(" + (p.ch > 32 && p.ch < 127 ? std::string(1, (char)p.ch) : std::to_string(p.ch)) + ",'" + p.arg + "') "; for (auto& p : exp) x += "(" + (p.ch > 32 && p.ch < 127 ? std::string(1, (char)p.ch) : std::to_string(p.ch)) + ",'" + p.arg + "') "; for (size_t i = 1; i < av.size(); ++i) in += av[i] + " "; fail("C20/arguments_sequence", "argument vector [ %s] parsed as %s, getopt conventions give %s", in.c_str(), g.c_str(), x.c_str()); } }
  for (int i = 0; i < argc; ++i) delete[] argv[i]; delete[] argv;
}

// ------------------------------------------------------------------ parent
static void doOpen(const Op& op) {
  C.watermark = simnet::fileIdWatermark();
  int kind = (int)(op.a[0] % 6); C.streams = (unsigned)(op.a[1] % 8); int envN = (int)(op.a[2] % 4); uint64_t seed = (uint64_t)op.a[3];
  Map<String, String> env; { Host h; C.expEnv.clear(); }
  static const char* ek[] = {"ALPHA", "BETA", "PATHX"}; static const char* evs[2][3] = {{"1", "two words", "/x:/y"}, {"", "two words", ""}}; const char** ev = evs[(seed >> 29) & 1 ? 1 : 0];   /* a variable may be set to the empty string: that is not the same as not set */
  for (int i = 0; i < envN; ++i) env.insert(String(ek[i], strlen(ek[i])), String(ev[i], strlen(ev[i])));
  { Host h; for (int i = 0; i < envN; ++i) C.expEnv.push_back(std::string(ek[i]) + "=" + ev[i]); C.expParentEnv = envN == 0; }
  std::vector<std::string> w; { Host h; int n = 1 + (int)(seed % 4); seed /= 4; w.push_back("prog"); for (int i = 1; i < n; ++i) { w.push_back(words[1 + seed % 8]); seed /= 8; } }
  bool ok = false;
  if (kind == 0 || kind == 4) {           // command line forms
    /* some words are written the way people write them by hand: a quoted segment in the middle or at the start of a word, two segments in one word, a backslash that escapes nothing */
    static const char* frags[] = {"--name=\"v w\".txt", "\"a\"\"b\"", "pre\"a b\"", "\"a b\"c", "\"say \\\"hi\\\"\"!", "\"dir\\sub x\"", "x\\y", "\"\"z"};
    std::string cmd; { Host h; uint64_t r = seed; for (size_t i = 0; i < w.size(); ++i) { if (i) cmd += ' '; if (i && r % 3 == 0) { cmd += frags[(r / 3) % 8]; probe("command_line_handwritten_word"); } else cmd += quote(w[i]); r /= 24; } C.expArgv = refSplit(cmd); C.expProgram = C.expArgv.empty() ? "" : C.expArgv[0]; }
    if (kind == 0) ok = C.proc->open(S(cmd), C.streams, env); else { C.streams = 0; ok = C.proc->start(S(cmd), env) != 0; }
  } else {
    int n = (int)w.size(); bool trailingNull = kind == 2; char** argv = new char*[n + 1];
    for (int i = 0; i < n; ++i) { argv[i] = new char[w[i].size() + 1]; memcpy(argv[i], w[i].c_str(), w[i].size() + 1); } argv[n] = 0;
    { Host h; C.expProgram = "/bin/exe"; C.expArgv = w; if (!trailingNull) C.expArgv[0] = "/bin/exe"; }
    if (kind == 1) ok = C.proc->open(String("/bin/exe"), n, argv, C.streams, env);
    else if (kind == 2) ok = C.proc->open(String("/bin/exe"), n + 1, argv, C.streams, env);
    else if (kind == 3) { List<String> l; for (int i = 0; i < n; ++i) l.append(S(w[i])); ok = C.proc->open(String("/bin/exe"), l, C.streams, env); }
    else { C.streams = 0; ok = C.proc->start(String("/bin/exe"), n, argv, env) != 0; }
    for (int i = 0; i < n; ++i) delete[] argv[i]; delete[] argv;
  }
  if (!ok && simproc::vforkFailureCount()) { probe("open_failed_no_process_could_be_created"); return; }   /* injected: the system could not create another process; nothing was started */
  if (!ok) fail("C20/open_failed", "Process::open/start returned failure");
  C.opened = true; C.pid = (int)C.proc->getProcessId();
  simproc::Child* c = simproc::findChild(C.pid);
  if (!c) fail("C20/no_child", "no child process was created");
  if (c->execed) checkImage(c); else { probe("exec_failed"); C.childDone = true; C.exitCode = 1; }
}

static void drainAndJoin() {
  // the well-behaved parent: close stdin, read every redirected output up to end-of-file, then join
  unsigned char buf[4096];
  if (C.streams & Process::stdinStream) { C.proc->close(Process::stdinStream); C.stdinClosed = true; }
  if (simdrv::knob(*C.spec, "second_process", 0)) {   // a second Process object is opened while the first is still running (descriptor numbers get re-used)
    C.proc2 = new Process; C.streams2 = 1 + (unsigned)(simdrv::knob(*C.spec, "second_process", 0) % 3); C.watermark = simnet::fileIdWatermark();
    unsigned keep = C.streams; std::string ep = C.expProgram; std::vector<std::string> ea = C.expArgv, ee = C.expEnv; bool epe = C.expParentEnv;
    { Host h; C.expProgram = "prog2"; C.expArgv = {"prog2", "x"}; C.expEnv.clear(); C.expParentEnv = true; } C.streams = C.streams2;
    uint64_t vf0 = simproc::vforkFailureCount();
    if (!C.proc2->open(String("prog2 x"), C.streams2)) {
      if (simproc::vforkFailureCount() == vf0) fail("C20/open_failed", "second Process::open failed");
      /* the system could not create another process: the failed object is dropped; the first process must not notice */
      probe("second_open_failed_no_process_could_be_created"); delete C.proc2; C.proc2 = 0; }
    if (C.proc2) { C.pid2 = (int)C.proc2->getProcessId(); simproc::Child* c2 = simproc::findChild(C.pid2); if (c2 && c2->execed) checkImage(c2); }
    /* waiting for "one of these processes" must leave a process that is not in the list alone: the first process alone is handed to Process::wait
       while the second one (which exits soon) runs - afterwards both must still be joinable (only when the second child's output fits its pipes) */
    if (C.proc2 && simdrv::knob(*C.spec, "wait_subset", 0) && simdrv::knob(*C.spec, "pipe_cap", 65536) >= 512) { Process* only[1] = {C.proc}; Process* got = Process::wait(only, 1); probe(got ? "wait_returned_listed_process" : "wait_returned_for_unlisted_process"); if (got && got != C.proc) fail("C20/wait_result", "Process::wait returned a process that was not in its list"); }
    { Host h; C.expProgram = ep; C.expArgv = ea; C.expEnv = ee; C.expParentEnv = epe; } C.streams = keep; probe("second_process");
  }
  unsigned open = C.streams & (Process::stdoutStream | Process::stderrStream);
  if (C.outEof) open &= ~Process::stdoutStream; if (C.errEof) open &= ~Process::stderrStream;
  /* a parent that is only interested in the exit code joins without reading: legitimate whenever everything the child writes fits into the pipes
     (otherwise the child blocks for ever - the caller's deadlock, not generated) */
  bool joinEarly = false;
  if (simdrv::knob(*C.spec, "join_without_reading", 0) && !C.proc2) {
    uint64_t wout = 0, werr = 0; bool echo = false; const RunSpec& sp = *C.spec;
    for (size_t i = 0; i < sp.plan.size(); ++i) { const Op& op = sp.plan[i]; if (op.task != 1) continue; if (op.code == C_WOUT) wout += (uint64_t)(op.a[0] % 9000); if (op.code == C_WERR) werr += (uint64_t)(op.a[0] % 9000); if (op.code == C_ECHO) echo = true; }
    uint64_t cap = (uint64_t)simdrv::knob(sp, "pipe_cap", 65536);
    if (!echo && wout + C.parentOut <= cap && werr + C.parentErr <= cap && wout <= cap && werr <= cap) { joinEarly = true; open = 0; probe("join_without_reading"); }
  }
  bool useSelect = simdrv::knob(*C.spec, "drain_with_select", 0) != 0;
  while (open) {
    if (open == Process::stdoutStream && !useSelect) { ssize_t r = C.proc->read(buf, sizeof buf); if (r < 0) fail("C20/read_failed", "read(stdout) failed although the stream is open"); if (r == 0) { C.outEof = true; open = 0; } else peerCheckParentRead(1, buf, r); continue; }
    uint st = open; if (simdrv::knob(*C.spec, "full_mask", 0)) { st = Process::stdoutStream | Process::stderrStream; if (st != open) probe("read_full_mask_with_closed_stream"); }   /* the usual read loop keeps asking for both streams after it closed one at end-of-file */
    ssize_t r = C.proc->read(buf, 1 + simdrv::knob(*C.spec, "read_chunk", 4095) % 4096, st);
    if (r < 0) fail("C20/read_failed", "read(streams=%u) failed although the streams are open", open);
    if (st != Process::stdoutStream && st != Process::stderrStream) fail("C20/read_stream_id", "read reported stream id %u", st);
    if (r == 0) { if (st == Process::stdoutStream) C.outEof = true; else C.errEof = true; open &= ~st; C.proc->close(st); } else peerCheckParentRead(st == Process::stdoutStream ? 1 : 2, buf, r);
  }
  uint32 code = 12345;
  bool viaKill = simdrv::knob(*C.spec, "kill_instead_of_join", 0) != 0 && !C.childDone;
  /* a join()/kill() that failed because its wait was interrupted is simply repeated, as a caller handling signals would: the child must still be there */
  if (viaKill) { for (int tries = 0; !C.proc->kill(); ++tries) { if (errno == EINTR && tries < 100) { probe("kill_interrupted_retry"); continue; } fail("C20/kill_failed", "kill() failed (errno %d%s)", errno, tries ? ", after an interrupted attempt" : ""); } probe("killed"); }
  else {
    for (int tries = 0; !C.proc->join(code); ++tries) { if (errno == EINTR && tries < 100) { probe("join_interrupted_retry"); continue; } fail(tries ? "C20/join_lost_child_after_interrupt" : "C20/join_failed", "join() failed (errno %d%s)", errno, tries ? ": the attempt before it was interrupted while the child was still running, and the child can no longer be joined" : ""); }
    simproc::Child* c = simproc::findChild(C.pid);
    int expCode = c && c->execed ? (int)(simdrv::knob(*C.spec, "exit_code", 0) & 0xff) : 1;
    if ((int)code != expCode) fail("C20/exit_code", "join() returned exit code %u, the child exited with %d", code, expCode);
    NoPreempt np;
    if (joinEarly && c && c->status == 13) fail("C20/child_lost_its_output_pipe", "the child was killed by SIGPIPE: join() closed the read end of a redirected stream while the child was still running");
    if ((C.streams & Process::stdoutStream) && C.outEof && C.parentOut != C.childOut) fail("C20/output_lost", "parent read %llu bytes of stdout up to end-of-file, the child wrote %llu", (unsigned long long)C.parentOut, (unsigned long long)C.childOut);
    if ((C.streams & Process::stderrStream) && C.errEof && C.parentErr != C.childErr) fail("C20/output_lost", "parent read %llu bytes of stderr up to end-of-file, the child wrote %llu", (unsigned long long)C.parentErr, (unsigned long long)C.childErr);
    if (C.childSawEof && C.childIn != C.parentIn) fail("C20/input_lost", "child read %llu bytes of stdin up to end-of-file, the parent wrote %llu", (unsigned long long)C.childIn, (unsigned long long)C.parentIn);
  }
  if (C.proc2) {
    unsigned o2 = C.streams2;
    while (o2) { uint st = o2; ssize_t r = C.proc2->read(buf, sizeof buf, st); if (r < 0) fail("C20/read_failed", "read on the second process failed although its streams are open (streams %u)", o2);
      if (r == 0) { o2 &= ~st; C.proc2->close(st); continue; }
      NoPreempt np; uint64_t& got = st == Process::stdoutStream ? C.p2Out : C.p2Err; for (ssize_t q = 0; q < r; ++q) if (buf[q] != codeByte(st == Process::stdoutStream ? 11 : 12, got + q)) fail("C20/output_bytes_differ", "second process: wrong byte read"); got += r; }
    uint32 code2 = 99; for (int tries = 0; !C.proc2->join(code2); ++tries) { if (errno == EINTR && tries < 100) { probe("join_interrupted_retry"); continue; } fail(tries ? "C20/join_lost_child_after_interrupt" : "C20/join_failed", "join() of the second process failed (errno %d)", errno); }
    simproc::Child* c2 = simproc::findChild(C.pid2);
    if (c2 && c2->execed) { if (code2 != 5) fail("C20/exit_code", "second process: join() returned %u, the child exited with 5", code2); NoPreempt np; if (C.p2Out != C.c2Out || C.p2Err != C.c2Err) fail("C20/output_lost", "second process: read %llu/%llu bytes, the child wrote %llu/%llu", (unsigned long long)C.p2Out, (unsigned long long)C.p2Err, (unsigned long long)C.c2Out, (unsigned long long)C.c2Err); }
    delete C.proc2; C.proc2 = 0;
  }
  if (simproc::vforkFailureCount()) return;   /* (the pipes of an open() whose vfork failed stay open in the unchanged library - DESIGN.md O10, outside the statement) */
  if (simnet::openFdCount() != 0) fail("C20/descriptor_left_open", "%d pipe descriptors still open in the parent after join/kill", simnet::openFdCount());
}

static void mainTask(void*) {
  const RunSpec& s = *C.spec;
  simproc::setPipeCapacity((size_t)simdrv::knob(s, "pipe_cap", 65536)); simproc::setStdinReadable(simdrv::knob(s, "stdin_readable", 0) != 0);
  simproc::setChildMain(childProgram); simproc::setParentStdoutPending("a line the parent has printed but not flushed yet\n");
  if (simdrv::knob(s, "mode", 0) == 1) { for (size_t i = 0; i < s.plan.size(); ++i) if (s.plan[i].code == A_PARSE) argumentsOp((uint64_t)s.plan[i].a[0] * 1000003ULL + (uint64_t)s.plan[i].a[1]); C.parentDone = true; return; }
  C.proc = new Process;
  unsigned char buf[4096];
  size_t cap = (size_t)simdrv::knob(s, "pipe_cap", 65536);
  bool childReadsStdin = false; for (auto& op : s.plan) if (op.task == 1 && op.code == C_ECHO) childReadsStdin = true;
  // writes larger than the pipe are only safe (for ANY caller) if the child consumes stdin first and cannot block on an output meanwhile
  bool bigWritesSafe = false; for (auto& op : s.plan) if (op.task == 1) { bigWritesSafe = op.code == C_ECHO && (op.a[1] % 2 == 1); break; }
  for (size_t i = 0; i < s.plan.size(); ++i) {
    const Op& op = s.plan[i]; if (op.task != 0) continue;
    logEvent("parent_op", op.code, op.a[0]);
    switch (op.code) {
    case P_OPEN: if (!C.opened) doOpen(op); break;
    case P_READ: if (C.opened && (C.streams & Process::stdoutStream) && !C.outEof && !(C.streams & Process::stderrStream) && !childReadsStdin) { /* reading one stream while the child may block on another is the caller's own deadlock */ ssize_t r = C.proc->read(buf, 1 + op.a[0] % 3000); if (r < 0) fail("C20/read_failed", "read(stdout) failed"); if (r == 0) C.outEof = true; else peerCheckParentRead(1, buf, r); } break;
    case P_READ2: if (C.opened && (!childReadsStdin || C.stdinClosed)) { uint st = (uint)(C.streams & (Process::stdoutStream | Process::stderrStream)); if (C.outEof) st &= ~Process::stdoutStream; if (C.errEof) st &= ~Process::stderrStream; if (!st) break; uint asked = st; ssize_t r = C.proc->read(buf, 1 + op.a[0] % 3000, st);
        if (r < 0) fail("C20/read_failed", "read(streams=%u) failed", asked); if (r == 0) { if (st == Process::stdoutStream) C.outEof = true; else C.errEof = true; C.proc->close(st); } else peerCheckParentRead(st == Process::stdoutStream ? 1 : 2, buf, r); } break;
    case P_WRITE: if (C.opened && (C.streams & Process::stdinStream) && !C.stdinClosed) { size_t n = 1 + op.a[0] % 3000; if (!bigWritesSafe && C.parentIn + n > cap) break; for (size_t q = 0; q < n; ++q) buf[q] = codeByte(0, C.parentIn + q); ssize_t r = C.proc->write(buf, n); if (r > 0) { NoPreempt np; C.parentIn += r; } else if (!C.childDone) { /* child may have closed stdin: EPIPE is legitimate then */ } } break;
    case P_CLOSE: if (C.opened) { uint m = (uint)(op.a[0] % 8) & Process::stdinStream; if (m && !C.stdinClosed) { C.proc->close(m); C.stdinClosed = true; } } break;
    case P_SLEEP: { static const int ms[] = {0, 1, 30, 5000}; usleep(ms[op.a[0] % 4] * 1000); break; }
    }
  }
  if (C.opened) drainAndJoin();
  delete C.proc; C.proc = 0;
  C.parentDone = true;
}

static bool quiescence() { failSoft("C20/deadlock", "parent and child both blocked although the parent closes stdin and drains every output before joining"); return false; }
static void finalize() { if (C.parentDone) memCheckLeaks("C20/memory_leaked"); }

static void generate(RunSpec& s, int tier) {
  uint64_t z = s.seed;
  auto r = [&](uint64_t n) { z += 0x9e3779b97f4a7c15ULL; uint64_t x = z; x = (x ^ (x >> 30)) * 0xbf58476d1ce4e5b9ULL; x = (x ^ (x >> 27)) * 0x94d049bb133111ebULL; x ^= x >> 31; return n ? x % n : x; };
  int mode = r(4) == 0 ? 1 : 0; s.knobs["mode"] = mode;
  if (mode == 1) { int n = 1 + (int)r(12); for (int i = 0; i < n; ++i) { Op o; o.task = 0; o.code = A_PARSE; o.a[0] = (int64_t)r(1u << 30); o.a[1] = (int64_t)r(1u << 30); o.a[2] = o.a[3] = 0; s.plan.push_back(o); } return; }
  static const int caps[] = {1, 16, 512, 4096, 65536}; s.knobs["pipe_cap"] = caps[r(5)]; s.knobs["exit_code"] = r(4) == 0 ? r(256) : r(3); s.knobs["drain_with_select"] = r(2); s.knobs["read_chunk"] = r(4096); s.knobs["kill_instead_of_join"] = r(10) == 0; s.knobs["stdin_readable"] = r(2); s.knobs["wait_subset"] = r(2); s.knobs["vfork_fail_pct"] = r(5) == 0 ? 50 : 0; s.knobs["join_without_reading"] = r(4) == 0; s.knobs["full_mask"] = r(2);
  static const int pct[] = {0, 0, 10, 30}; s.knobs["pipe_fault_pct"] = pct[r(4)]; s.knobs["eintr_pct"] = r(3) == 0 ? 5 : 0; s.knobs["exec_fail_pct"] = r(8) == 0 ? 100 : 0; s.knobs["second_process"] = r(3) == 0 ? 1 + r(3) : 0;
  static const int synck[] = {0, 1, 2, 4}; s.knobs["sync_switch_log2"] = synck[r(4)]; static const int memk[] = {255, 255, 8, 5}; s.knobs["mem_switch_log2"] = memk[r(4)];
  { Op o; o.task = 0; o.code = P_OPEN; o.a[0] = (int64_t)r(6); o.a[1] = (int64_t)r(8); o.a[2] = (int64_t)r(4); o.a[3] = (int64_t)r(1u << 30); s.plan.push_back(o); }
  int np = (int)r(8);
  for (int i = 0; i < np; ++i) { Op o; o.task = 0; o.a[0] = (int64_t)r(100000); o.a[1] = o.a[2] = o.a[3] = 0; uint64_t k = r(100); o.code = k < 30 ? P_READ : k < 55 ? P_READ2 : k < 80 ? P_WRITE : k < 88 ? P_CLOSE : P_SLEEP; s.plan.push_back(o); }
  int nc = 1 + (int)r(7);
  for (int i = 0; i < nc; ++i) { Op o; o.task = 1; o.a[0] = (int64_t)r(100000); o.a[1] = (int64_t)r(100000); o.a[2] = o.a[3] = 0; uint64_t k = r(100); o.code = k < 35 ? C_WOUT : k < 60 ? C_WERR : k < 78 ? C_SLEEP : k < 93 ? C_ECHO : C_CLOSE; s.plan.push_back(o); }
  (void)tier;
}

static Result execute(const RunSpec& s, bool keepLog) {
  Config cfg;
  cfg.mem_switch_log2 = (int)simdrv::knob(s, "mem_switch_log2", 255); cfg.sync_switch_log2 = (int)simdrv::knob(s, "sync_switch_log2", 2);
  cfg.rate[K_PIPE] = simdrv::knob(s, "pipe_fault_pct", 0) / 100.0; cfg.rate[K_EINTR] = simdrv::knob(s, "eintr_pct", 0) / 100.0; cfg.rate[K_CHILD] = simdrv::knob(s, "exec_fail_pct", 0) / 100.0; cfg.rate[K_THREADFAIL] = simdrv::knob(s, "vfork_fail_pct", 0) / 100.0;
  cfg.step_budget = 1500000; cfg.tail_budget_min = 300000; cfg.tail_factor = 1; cfg.keep_log = keepLog;
  C.spec = &s; C.proc = 0; C.streams = 0; C.opened = false; C.pid = 0; C.childOut = C.childErr = C.childIn = C.parentOut = C.parentErr = C.parentIn = 0; C.outEof = C.errEof = C.childSawEof = C.childDone = false; C.exitCode = 0; C.stdinClosed = false; C.parentDone = false; C.proc2 = 0; C.pid2 = 0; C.streams2 = 0; C.c2Out = C.c2Err = C.p2Out = C.p2Err = 0; C.watermark = 0;
  C.expArgv.clear(); C.expEnv.clear(); C.expProgram.clear(); C.expParentEnv = true;
  Hooks h; h.main_fn = mainTask; h.quiescence = quiescence; h.finalize = finalize;
  Result r = run(s, cfg, h);
  if (r.budget_exhausted && !r.violated && !C.parentDone) { r.violated = true; r.cls = "C20/no_progress"; r.detail = "the parent never finished although the child program terminates and the parent drains before joining (busy loop?)"; }
  r.probes[simdrv::knob(s, "mode", 0) ? "mode_arguments" : "mode_process"]++;
  return r;
}

static simdrv::Harness H = {"C20", "c20_process", generate, execute, opName, nullptr, nullptr, "", ""};
int main(int argc, char** argv) { return simdrv::main(argc, argv, H); }
