// C09: shared payloads (String, Variant, Xml::Variant, RefCount::Ptr) are released exactly once, after their last handle,
// and never modified in place while another handle refers to them — for every handle history and every interleaving of
// threads that own distinct handles to a common payload.
// Real code: include/nstd/{String,Variant,RefCount,Atomic,HashMap,List,Array}.hpp, Document/Xml.hpp, src/String.cpp, src/Memory.cpp.
// Stub: scheduler, allocator (arena ledger + shadow), pthread mutex under the mailbox.
#include <nstd/Debug.hpp>      /* first, as in the library's own sources: the containers then use the VERIFY/ASSERT forms of their placement-new code */
#include <nstd/String.hpp>
#include <nstd/Variant.hpp>
#include <nstd/RefCount.hpp>
#include <nstd/Document/Xml.hpp>
#include <nstd/Mutex.hpp>
#include "sim.hpp"
#include "driver.hpp"
#include <stdio.h>
#include <string.h>
#include <string>
#include <vector>

using namespace sim;

enum Family { F_STRING = 0, F_VARIANT, F_XML, F_PTR, F_N };
static const char* famName[] = {"string", "variant", "xml", "ptr"};
enum Code { O_COPY = 1, O_ASSIGN, O_RECREATE, O_MUTATE, O_SWAP, O_SEND, O_RECV, O_READ, O_WORK, O_N };
static const char* codeName[] = {"?", "copy", "assign", "recreate", "mutate", "swap", "send", "recv", "read", "work"};
static const char* opName(int c) { return (c > 0 && c < O_N) ? codeName[c] : "?"; }

// ------------------------------------------------------------------ value model (host memory)
struct Val {
  enum T { NUL, INT, STR, LIST, ARR, MAP, XTEXT, XELEM, OBJ } t = NUL;
  long i = 0; std::string s; int vt = 0;   /* INT in a Variant: the scalar type it was assigned as (0 = int64) */
  std::vector<std::pair<std::string, std::string>> attrs;   // XELEM
  std::vector<std::pair<std::string, Val>> kids;            // LIST/ARR (key unused), MAP (key), XELEM content (key unused)
};
static std::string scalarText(const struct Val& v);
static std::string show(const Val& v) {
  switch (v.t) {
  case Val::NUL: return "null"; case Val::INT: return "i" + std::to_string(v.i); case Val::STR: return "\"" + v.s + "\""; case Val::XTEXT: return "t\"" + v.s + "\""; case Val::OBJ: return "obj" + std::to_string(v.i);
  default: { std::string o = v.t == Val::LIST ? "L[" : v.t == Val::ARR ? "A[" : v.t == Val::MAP ? "M{" : "<" + v.s + " "; for (auto& a : v.attrs) o += a.first + "=" + a.second + " "; for (auto& k : v.kids) o += (v.t == Val::MAP ? k.first + ":" : "") + show(k.second) + ","; return o + "]"; }
  }
}

struct Obj : public RefCount::Object { int id; RefCount::Ptr<Obj> next; Obj(int id, Obj* nxt = 0); ~Obj(); };
static const int MAXOBJ = 256;
struct Ctx {
  const RunSpec* spec; int fam; int nt, k;
  char* slots[4];                 // per task: k slots of 64 bytes (arena)
  std::vector<Val> model[4];
  // mailbox per task
  struct Box { Mutex* mx; char* ring; int head, count; std::vector<Val> vals; } box[4];
  int constructed[MAXOBJ], destroyed[MAXOBJ], nextId[MAXOBJ]; int nobj;
  int taskIds[4];
  uint64_t uniq;
};
static Ctx C;
static const int SLOT = 64, RING = 4;
Obj::Obj(int i, Obj* nxt) : id(i), next(nxt) { Host h; C.constructed[i]++; C.nextId[i] = nxt ? nxt->id : -1; }
Obj::~Obj() { Host h; C.destroyed[id]++; if (C.destroyed[id] > 1) failSoft("C09/ptr/destroyed_twice", "object %d destroyed %d times", id, C.destroyed[id]); }

typedef RefCount::Ptr<Obj> P;
/* handles to an interface: the pointee type is not the counted base and does not sit at offset 0 of the object */
struct Iface { int tag; int probeValue() const { return tag; } };
struct ObjMI : public RefCount::Object, public Iface { int id; String payload; ObjMI(int i) : id(i), payload("owned by the object", 19) { tag = 7000 + i; Host h; C.constructed[i]++; } ~ObjMI() { Host h; C.destroyed[id]++; if (C.destroyed[id] > 1) failSoft("C09/ptr/destroyed_twice", "object %d destroyed %d times", id, C.destroyed[id]); } };
typedef RefCount::Ptr<Iface> PI;
static inline String& S(char* p) { return *(String*)p; }
static inline Variant& V(char* p) { return *(Variant*)p; }
static inline Xml::Variant& X(char* p) { return *(Xml::Variant*)p; }
static inline P& PT(char* p) { return *(P*)p; }

static String mkString(const std::string& s) { return String(s.c_str(), s.size()); }
static std::string genStr(uint64_t v) { static const char* w[] = {"", "a", "Bc", "hello", "World42", "xyzxyzxyzxyzxyzxyz", "MiXeD Case 0123456789 abcdefghijklmnopqrstuvwxyz"}; std::string s = w[v % 7]; if ((v / 7) % 3 == 0) s += std::to_string(v % 1000); if ((v / 21) % 3 == 0) s += (v / 84) % 2 ? " \t" : " "; if ((v / 168) % 5 == 0) s = " " + s; return s; }

static std::string scalarText(const Val& v) { if (v.vt == 1) return v.i ? "true" : "false"; if (v.vt == 2) { char b[64]; snprintf(b, sizeof b, "%f", (double)v.i); return b; } return std::to_string(v.i); }   /* what Variant::toString() makes of a scalar */
// build a real value in *p (raw memory) from a model value
static void construct(char* p, const Val& v);
static Variant mkVariant(const Val& v) {
  switch (v.t) {
  case Val::INT: switch (v.vt) { case 1: return Variant((bool)(v.i != 0)); case 2: return Variant((double)v.i); case 3: return Variant((int)v.i); case 4: return Variant((uint)v.i); case 5: return Variant((uint64)v.i); default: return Variant((int64)v.i); }
  case Val::STR: return Variant(mkString(v.s));
  case Val::LIST: { List<Variant> l; for (auto& k : v.kids) l.append(mkVariant(k.second)); return Variant(l); }
  case Val::ARR: { Array<Variant> a; for (auto& k : v.kids) a.append(mkVariant(k.second)); return Variant(a); }
  case Val::MAP: { HashMap<String, Variant> m; for (auto& k : v.kids) m.append(mkString(k.first), mkVariant(k.second)); return Variant(m); }
  default: return Variant();
  }
}
static Xml::Variant mkXml(const Val& v) {
  if (v.t == Val::XTEXT) return Xml::Variant(mkString(v.s));
  if (v.t == Val::XELEM) { Xml::Element e; e.line = 0; e.column = 0; e.type = mkString(v.s); for (auto& a : v.attrs) e.attributes.append(mkString(a.first), mkString(a.second)); for (auto& k : v.kids) e.content.append(mkXml(k.second)); return Xml::Variant(e); }
  return Xml::Variant();
}
static void construct(char* p, const Val& v) {
  switch (C.fam) {
  case F_STRING: new (p) String(mkString(v.s)); break;
  case F_VARIANT: new (p) Variant(mkVariant(v)); break;
  case F_XML: new (p) Xml::Variant(mkXml(v)); break;
  case F_PTR: if (v.t == Val::OBJ) new (p) P(new Obj((int)v.i)); else new (p) P(); break;
  }
}
static void copyConstruct(char* d, char* s) {
  switch (C.fam) { case F_STRING: new (d) String(S(s)); break; case F_VARIANT: new (d) Variant(V(s)); break; case F_XML: new (d) Xml::Variant(X(s)); break; case F_PTR: new (d) P(PT(s)); break; }
}
static void assign(char* d, char* s) {
  switch (C.fam) { case F_STRING: S(d) = S(s); break; case F_VARIANT: V(d) = V(s); break; case F_XML: X(d) = X(s); break; case F_PTR: PT(d) = PT(s); break; }
}
static void destroy(char* p) {
  switch (C.fam) { case F_STRING: S(p).~String(); break; case F_VARIANT: V(p).~Variant(); break; case F_XML: X(p).~Variant(); break; case F_PTR: PT(p).~P(); break; }
}

// ------------------------------------------------------------------ comparison real <-> model
static bool eqStr(const String& s, const std::string& m) { return s.length() == m.size() && memcmp((const char*)s, m.data(), m.size()) == 0 && ((const char*)s)[m.size()] == 0; }
static bool eqVariant(const Variant& v, const Val& m) {
  switch (m.t) {
  case Val::NUL: return v.isNull();
  case Val::INT: { static const Variant::Type ty[] = {Variant::int64Type, Variant::boolType, Variant::doubleType, Variant::intType, Variant::uintType, Variant::uint64Type}; return v.getType() == ty[m.vt % 6] && v.toInt64() == m.i; }
  case Val::STR: return v.getType() == Variant::stringType && eqStr(v.toString(), m.s);
  case Val::LIST: { if (v.getType() != Variant::listType) return false; const List<Variant>& l = v.toList(); if (l.size() != m.kids.size()) return false; size_t n = 0; for (List<Variant>::Iterator i = l.begin(), e = l.end(); i != e; ++i, ++n) if (!eqVariant(*i, m.kids[n].second)) return false; return true; }
  case Val::ARR: { if (v.getType() != Variant::arrayType) return false; const Array<Variant>& a = v.toArray(); if (a.size() != m.kids.size()) return false; for (size_t n = 0; n < m.kids.size(); ++n) if (!eqVariant(a[n], m.kids[n].second)) return false; return true; }
  case Val::MAP: { if (v.getType() != Variant::mapType) return false; const HashMap<String, Variant>& h = v.toMap(); if (h.size() != m.kids.size()) return false; size_t n = 0; for (HashMap<String, Variant>::Iterator i = h.begin(), e = h.end(); i != e; ++i, ++n) { if (!eqStr(i.key(), m.kids[n].first) || !eqVariant(*i, m.kids[n].second)) return false; HashMap<String, Variant>::Iterator f = h.find(i.key()); if (f == h.end() || &*f != &*i) return false; /* readers also look entries up by key: a read-only lookup through one handle, possibly at the same time as lookups through other handles of the payload */ } return true; }
  default: return false;
  }
}
static bool eqXml(const Xml::Variant& v, const Val& m) {
  if (m.t == Val::NUL) return v.isNull();
  if (m.t == Val::XTEXT) return v.isText() && eqStr(v.toString(), m.s);
  if (m.t != Val::XELEM || !v.isElement()) return false;
  const Xml::Element& e = v.toElement();
  if (!eqStr(e.type, m.s) || e.attributes.size() != m.attrs.size() || e.content.size() != m.kids.size()) return false;
  size_t n = 0; for (HashMap<String, String>::Iterator i = e.attributes.begin(), end = e.attributes.end(); i != end; ++i, ++n) if (!eqStr(i.key(), m.attrs[n].first) || !eqStr(*i, m.attrs[n].second)) return false;
  n = 0; for (List<Xml::Variant>::Iterator i = e.content.begin(), end = e.content.end(); i != end; ++i, ++n) if (!eqXml(*i, m.kids[n].second)) return false;
  return true;
}
static bool verifySlot(char* p, const Val& m) {
  switch (C.fam) {
  case F_STRING: return eqStr(S(p), m.s);
  case F_VARIANT: return eqVariant(V(p), m);
  case F_XML: return eqXml(X(p), m);
  case F_PTR: {
    const P& q = PT(p);
    if (m.t != Val::OBJ) return !q;
    if (!q) return false;
    { Host h; if (C.destroyed[m.i]) { failSoft("C09/ptr/destroyed_while_referenced", "object %ld was destroyed while a handle still refers to it", m.i); return true; } }
    return q->id == (int)m.i;
  }
  }
  return true;
}
static void verifyAll(int w, const char* after) {
  for (int j = 0; j < C.k; ++j) {
    Val m; { Host h; m = C.model[w][j]; }
    bool ok = verifySlot(C.slots[w] + j * SLOT, m);
    if (failed()) fail("", " ");
    if (!ok) { char cls[64]; snprintf(cls, sizeof cls, "C09/%s/value_changed", famName[C.fam]); std::string sm; { Host h; sm = show(m); } fail(cls, "task %d slot %d no longer holds %s after %s", w, j, sm.c_str(), after); }
  }
}

// ------------------------------------------------------------------ mutations (real + model)
static void mutate(int w, int j, uint64_t kind, uint64_t param) {
  char* p = C.slots[w] + j * SLOT;
  Val m; { Host h; m = C.model[w][j]; }
  std::string gs; { Host h; gs = genStr(param); }
  switch (C.fam) {
  case F_STRING: {
    String& s = S(p);
    switch (kind % 24 >= 20 ? 9 : kind % 24) {     /* trim is drawn more often than the others: it is the one mutator whose effect depends on what the ends of the string look like */
    /* the argument is the handle itself */
    case 16: { std::string old = m.s; s.append(s); m.s = old + old; probe("self_append"); break; }
    case 17: break;   /* (s.prepend(s) is not generated: on the unchanged library it yields old + uninitialised bytes - a value-model defect of String itself, DESIGN.md O9, not a question of shared payloads) */
    case 18: { std::string old = m.s; s += s; m.s = old + old; probe("self_append"); break; }
    case 19: { List<String> toks; toks.append(mkString(gs)); std::string old = m.s; if (!old.empty()) { s.replace(s, mkString(gs)); m.s = gs; } break; }   /* needle is the string itself */
    case 9: { s.trim(); static const char ws[] = " \t\r\n\v"; size_t b = 0, e = m.s.size(); while (b < e && strchr(ws, m.s[b])) ++b; while (e > b && strchr(ws, m.s[e - 1])) --e; if (b == 0 && e < m.s.size()) probe("trim_trailing_only"); m.s = m.s.substr(b, e - b); break; }
    case 10: s.toUpperCase(); for (auto& c : m.s) if (c >= 'a' && c <= 'z') c -= 32; break;
    case 11: { static const char* nd[] = {"a", "xyz", "l", "42"}; std::string needle = nd[param % 4]; s.replace(mkString(needle), mkString(gs)); std::string out; size_t pos = 0; for (;;) { size_t f = m.s.find(needle, pos); if (f == std::string::npos) { out += m.s.substr(pos); break; } out += m.s.substr(pos, f - pos); out += gs; pos = f + needle.size(); } m.s = out; break; }
    case 12: if (param % 2) { s.append(gs.data(), gs.size()); m.s += gs; } else { s.prepend(gs.data(), gs.size()); m.s = gs + m.s; } break;
    case 13: { s.printf("%s-%d", gs.c_str(), (int)(param % 1000)); m.s = gs + "-" + std::to_string(param % 1000); break; }
    case 14: { s.append(mkString(param % 2 ? "  " : " \t\n")); m.s += param % 2 ? "  " : " \t\n"; break; }
    case 15: { List<String> toks; toks.append(mkString(gs)); toks.append(mkString("mid")); if (param % 2) toks.append(S(p)); std::string third = m.s; s.join(toks, ','); m.s = gs + ",mid"; if (param % 2) m.s += "," + third; break; }
    case 0: s.append(mkString(gs)); m.s += gs; break;
    case 1: s.prepend(mkString(gs)); m.s = gs + m.s; break;
    case 2: { char* c = s; if (!m.s.empty()) { c[0] = '#'; m.s[0] = '#'; } break; }
    case 3: { size_t n = param % 12; s.resize(n); if (n <= m.s.size()) m.s.resize(n); else { /* content beyond old length is unspecified: normalise */ size_t old = m.s.size(); char* c = s; for (size_t q = old; q < n; ++q) c[q] = '.'; m.s.resize(n, '.'); } break; }
    case 4: s.replace('a', 'Z'); for (auto& c : m.s) if (c == 'a') c = 'Z'; break;
    case 5: s.toLowerCase(); for (auto& c : m.s) if (c >= 'A' && c <= 'Z') c += 32; break;
    case 6: s.clear(); m.s.clear(); break;
    case 7: { static const char lit[] = "attached-literal"; size_t n = param % 17; s.attach(lit, n); m.s.assign(lit, n); break; }
    case 8: s.append('!'); m.s += '!'; break;
    }
    break; }
  case F_VARIANT: {
    Variant& v = V(p);
    Val child; child.t = (param % 2) ? Val::STR : Val::INT; child.s = gs; child.i = (long)(param % 1000);
    static const char* const collide[4] = {"kamak", "kbmbk", "kcmck", "kdmdk"};   /* same length, first, middle and last character: one hash bucket chain */
    switch (kind % 21) {   // (assigning a *container* taken from inside the own payload, v = v.toMap()[k].toMap(), is caller misuse as for any container and is not generated)
    case 7: { // assign from a handle that lives inside the own payload (e.g. walking down a tree): v = v.toList().front()
      if ((m.t == Val::LIST || m.t == Val::ARR || m.t == Val::MAP) && !m.kids.empty()) { const Variant& cv = v; if (m.t == Val::LIST) v = cv.toList().front(); else if (m.t == Val::ARR) v = cv.toArray()[0]; else v = *cv.toMap().begin(); Val c = m.kids[0].second; m = c; probe("assign_from_nested_handle"); }
      break; }
    case 0: { std::string key; { Host h; key = "k" + std::to_string(++C.uniq); } v.toMap().append(mkString(key), mkVariant(child)); if (m.t != Val::MAP) { m = Val(); m.t = Val::MAP; } m.kids.push_back({key, child}); break; }
    case 1: v.toList().append(mkVariant(child)); if (m.t != Val::LIST) { m = Val(); m.t = Val::LIST; } m.kids.push_back({"", child}); break;
    case 2: v.toArray().append(mkVariant(child)); if (m.t != Val::ARR) { m = Val(); m.t = Val::ARR; } m.kids.push_back({"", child}); break;
    case 3: { String& s = v.toString(); std::string base; if (m.t == Val::STR) base = m.s; else if (m.t == Val::INT) base = scalarText(m); s.append(mkString(gs)); m = Val(); m.t = Val::STR; m.s = base + gs; break; }
    case 4: { /* every scalar assignment overload (each switches the handle to its in-object value) */
      long n = (long)(param % 1000); int vt = (int)((param / 1000 + param) % 6); if (vt == 1) n = n & 1;
      switch (vt) { case 1: v = (bool)(n != 0); break; case 2: v = (double)n; break; case 3: v = (int)n; break; case 4: v = (uint)n; break; case 5: v = (uint64)n; break; default: v = (int64)n; break; }
      m = Val(); m.t = Val::INT; m.i = n; m.vt = vt; break; }
    case 5: v = mkString(gs); m = Val(); m.t = Val::STR; m.s = gs; break;
    case 6: v.clear(); m = Val(); break;
    case 8: { /* insert or overwrite one of four keys that share a bucket */
      std::string key = collide[param % 4]; v.toMap().append(mkString(key), mkVariant(child)); if (m.t != Val::MAP) { m = Val(); m.t = Val::MAP; }
      bool have = false; for (auto& kv : m.kids) if (kv.first == key) { kv.second = child; have = true; probe("map_key_overwritten"); } if (!have) m.kids.push_back({key, child});
      break; }
    case 9: { /* remove one key of a map payload: by key, or the first / last entry through the iterator forms */
      if (m.t == Val::MAP && !m.kids.empty()) { size_t at = (size_t)(param % m.kids.size()); std::string key = m.kids[at].first;
        if (param % 5 == 0) { v.toMap().removeFront(); at = 0; } else if (param % 5 == 1) { HashMap<String, Variant>& h = v.toMap(); h.remove(h.begin()); at = 0; } else if (param % 5 == 2) { v.toMap().removeBack(); at = m.kids.size() - 1; } else v.toMap().remove(mkString(key));
        m.kids.erase(m.kids.begin() + at); probe("map_key_removed"); }
      break; }
    case 18: { /* the container assignment overloads, from an independent container: empty (the shared static one a non-container Variant hands out) or with one element */
      const Variant other((int64)7); Val one; one.t = Val::STR; one.s = gs;
      switch (param % 6) {
      case 0: v = other.toArray(); m = Val(); m.t = Val::ARR; break;
      case 1: v = other.toList(); m = Val(); m.t = Val::LIST; break;
      case 2: v = other.toMap(); m = Val(); m.t = Val::MAP; break;
      case 3: { Array<Variant> a; a.append(mkVariant(one)); v = a; m = Val(); m.t = Val::ARR; m.kids.push_back({"", one}); break; }
      case 4: { List<Variant> l; l.append(mkVariant(one)); v = l; m = Val(); m.t = Val::LIST; m.kids.push_back({"", one}); break; }
      case 5: { HashMap<String, Variant> h; h.append(mkString("ck"), mkVariant(one)); v = h; m = Val(); m.t = Val::MAP; m.kids.push_back({"ck", one}); break; } }
      probe("container_assigned"); break; }
    case 20: { /* append a whole container to the payload's container */
      Val one; one.t = Val::STR; one.s = gs; Val two; two.t = Val::INT; two.i = (long)(param % 1000);
      if (m.t == Val::ARR) { Array<Variant> a; a.append(mkVariant(one)); a.append(mkVariant(two)); v.toArray().append(a); m.kids.push_back({"", one}); m.kids.push_back({"", two}); probe("container_appended"); }
      else if (m.t == Val::LIST) { List<Variant> l; l.append(mkVariant(one)); l.append(mkVariant(two)); v.toList().append(l); m.kids.push_back({"", one}); m.kids.push_back({"", two}); probe("container_appended"); }
      break; }
    case 19: { /* container-level assignment inside the payload: the array / list / map itself is assigned an empty or a one-element container */
      Val one; one.t = Val::INT; one.i = (long)(param % 1000);
      if (m.t == Val::ARR) { Array<Variant> a; if (param % 2) a.append(mkVariant(one)); v.toArray() = a; m.kids.clear(); if (param % 2) m.kids.push_back({"", one}); }
      else if (m.t == Val::LIST) { List<Variant> l; if (param % 2) l.append(mkVariant(one)); v.toList() = l; m.kids.clear(); if (param % 2) m.kids.push_back({"", one}); }
      else if (m.t == Val::MAP) { HashMap<String, Variant> h; if (param % 2) h.append(mkString("ck"), mkVariant(one)); v.toMap() = h; m.kids.clear(); if (param % 2) m.kids.push_back({"ck", one}); }
      break; }
    case 16: { /* overwrite a key of a map payload with the handle that is stored under it: m.insert(k, *m.find(k)) */
      if (m.t == Val::MAP && !m.kids.empty()) { size_t at = (size_t)(param % m.kids.size()); HashMap<String, Variant>& h = v.toMap(); HashMap<String, Variant>::Iterator it = h.find(mkString(m.kids[at].first)); if (it != h.end()) { h.append(mkString(m.kids[at].first), *it); probe("map_key_overwritten_with_itself"); } }
      break; }
    case 17: { /* promote a grandchild: v[k] = v[k][first] - the new value lives inside the stored value's payload */
      if (m.t == Val::MAP) for (size_t at = 0; at < m.kids.size(); ++at) { Val& kid = m.kids[at].second; if ((kid.t == Val::MAP || kid.t == Val::LIST || kid.t == Val::ARR) && !kid.kids.empty()) {
        HashMap<String, Variant>& h = v.toMap(); HashMap<String, Variant>::Iterator it = h.find(mkString(m.kids[at].first)); if (it == h.end()) break;
        const Variant& stored = *it; const Variant& inner = kid.t == Val::MAP ? *stored.toMap().begin() : kid.t == Val::LIST ? stored.toList().front() : stored.toArray()[0];
        h.append(mkString(m.kids[at].first), inner); Val promoted = kid.kids[0].second; m.kids[at].second = promoted; probe("map_child_promoted"); break; } }
      break; }
    case 14: { /* remove an element of an array payload by index; the index may be size() (documented no-op) */
      if (m.t == Val::ARR) { size_t n = m.kids.size(); size_t at = (size_t)(param % (n + 1)); v.toArray().remove(at); if (at < n) m.kids.erase(m.kids.begin() + at); else probe("array_remove_at_size"); }
      break; }
    case 15: { /* remove the first or last element of a list / array payload */
      if (m.t == Val::LIST && !m.kids.empty()) { if (param % 2) { v.toList().removeFront(); m.kids.erase(m.kids.begin()); } else { v.toList().removeBack(); m.kids.pop_back(); } }
      else if (m.t == Val::ARR && !m.kids.empty()) { if (param % 2) { v.toArray().removeFront(); m.kids.erase(m.kids.begin()); } else { v.toArray().removeBack(); m.kids.pop_back(); } }
      break; }
    case 11: { /* take the contents of a list payload out with swap, drop them, go on using the list (its spare cells must have moved along with its blocks) */
      { List<Variant> tmp; v.toList().swap(tmp); if (m.t == Val::LIST && !m.kids.empty()) probe("payload_container_swapped_out"); }
      v.toList().append(mkVariant(child)); m = Val(); m.t = Val::LIST; m.kids.push_back({"", child}); break; }
    case 12: { { Array<Variant> tmp; v.toArray().swap(tmp); if (m.t == Val::ARR && !m.kids.empty()) probe("payload_container_swapped_out"); }
      v.toArray().append(mkVariant(child)); m = Val(); m.t = Val::ARR; m.kids.push_back({"", child}); break; }
    case 13: { { HashMap<String, Variant> tmp; v.toMap().swap(tmp); if (m.t == Val::MAP && !m.kids.empty()) probe("payload_container_swapped_out"); }
      std::string key; { Host h; key = "k" + std::to_string(++C.uniq); } v.toMap().append(mkString(key), mkVariant(child)); m = Val(); m.t = Val::MAP; m.kids.push_back({key, child}); break; }
    case 10: { /* assign from a String handle that lives inside the own payload: v = v.toList().front().toString() */
      if ((m.t == Val::LIST || m.t == Val::ARR || m.t == Val::MAP) && !m.kids.empty()) {
        Variant* first; if (m.t == Val::LIST) first = &v.toList().front(); else if (m.t == Val::ARR) first = &v.toArray()[0]; else { HashMap<String, Variant>::Iterator it = v.toMap().begin(); first = &*it; }
        String& inner = first->toString();
        v = inner;
        Val c = m.kids[0].second; std::string str = c.t == Val::STR ? c.s : c.t == Val::INT ? scalarText(c) : std::string(); m = Val(); m.t = Val::STR; m.s = str; probe("assign_from_nested_string");
      }
      break; }
    }
    break; }
  case F_XML: {
    Xml::Variant& x = X(p);
    static const char* const collide[4] = {"kamak", "kbmbk", "kcmck", "kdmdk"};
    switch (kind % 10) {
    case 9: { if (m.t == Val::XELEM) { Xml::Element& e = x.toElement(); { List<Xml::Variant> tmp; e.content.swap(tmp); if (!m.kids.empty()) probe("payload_container_swapped_out"); } Val child; child.t = Val::XTEXT; child.s = gs; e.content.append(mkXml(child)); m.kids.clear(); m.kids.push_back({"", child}); } break; }
    case 5: { std::string key = collide[param % 4]; Xml::Element& e = x.toElement(); e.attributes.append(mkString(key), mkString(gs)); if (m.t != Val::XELEM) { m = Val(); m.t = Val::XELEM; }
      bool have = false; for (auto& kv : m.attrs) if (kv.first == key) { kv.second = gs; have = true; probe("map_key_overwritten"); } if (!have) m.attrs.push_back({key, gs});
      break; }
    case 6: { if (m.t == Val::XELEM && !m.attrs.empty()) { size_t at = (size_t)(param % m.attrs.size()); std::string key = m.attrs[at].first; if (param % 4 == 0) { x.toElement().attributes.removeFront(); at = 0; } else if (param % 4 == 1) { x.toElement().attributes.removeBack(); at = m.attrs.size() - 1; } else x.toElement().attributes.remove(mkString(key)); m.attrs.erase(m.attrs.begin() + at); probe("map_key_removed"); } break; }
    case 7: { /* replace an element by its tag name: the String handle lives inside the own payload */
      if (m.t == Val::XELEM) { x = x.toElement().type; std::string str = m.s; m = Val(); m.t = Val::XTEXT; m.s = str; probe("assign_from_nested_string"); } break; }
    case 8: { /* ... or by its first attribute's value */
      if (m.t == Val::XELEM && !m.attrs.empty()) { x = *x.toElement().attributes.begin(); std::string str = m.attrs[0].second; m = Val(); m.t = Val::XTEXT; m.s = str; probe("assign_from_nested_string"); } break; }
    case 0: { Xml::Element& e = x.toElement(); e.type = mkString(gs); if (m.t != Val::XELEM) { m = Val(); m.t = Val::XELEM; } m.s = gs; break; }
    case 1: { std::string key; { Host h; key = "a" + std::to_string(++C.uniq); } Xml::Element& e = x.toElement(); e.attributes.append(mkString(key), mkString(gs)); if (m.t != Val::XELEM) { m = Val(); m.t = Val::XELEM; } m.attrs.push_back({key, gs}); break; }
    case 2: { Val child; child.t = Val::XTEXT; child.s = gs; Xml::Element& e = x.toElement(); e.content.append(mkXml(child)); if (m.t != Val::XELEM) { m = Val(); m.t = Val::XELEM; } m.kids.push_back({"", child}); break; }
    case 3: x = mkString(gs); m = Val(); m.t = Val::XTEXT; m.s = gs; break;
    case 4: x.clear(); m = Val(); break;
    }
    break; }
  case F_PTR: {
    P& q = PT(p);
    switch (kind % 7) {
    case 6: { /* an episode with interface handles: created from the concrete object, copied, assigned, all dropped by destruction or by assignment */
      int id; { Host h; id = C.nobj < MAXOBJ ? C.nobj++ : -1; } if (id < 0) break;
      probe("interface_handle_episode");
      { PI a(new ObjMI(id)); PI b(a); PI c; c = b;
        if (a->probeValue() != 7000 + id || c->probeValue() != 7000 + id) fail("C09/ptr/value_changed", "interface handle no longer reaches object %d", id);
        if (param % 3 == 0) { a = PI(); b = PI(); }            /* last handle dies by destruction of c */
        else if (param % 3 == 1) { c = PI(); a = PI(); }       /* ... of b */
        { bool gone; { Host h; gone = C.destroyed[id] != 0; } if (gone) fail("C09/ptr/destroyed_while_referenced", "object %d was destroyed while an interface handle still refers to it", id); } }
      { bool once; { Host h; once = C.destroyed[id] == 1; } if (!once) fail("C09/ptr/destructor_count", "object %d (used through interface handles) was destroyed %d times after its last handle had gone", id, C.destroyed[id]); }
      break; }
    case 5: { // advance along the chain in handle form: q = q->next (the right-hand handle lives inside the object being released)
      int nxt = -1; if (m.t == Val::OBJ) { Host h; nxt = C.nextId[m.i]; }
      if (nxt >= 0) { q = q->next; m.i = nxt; probe("chain_advanced_handle_form"); }
      break; }
    case 0: { int id; { Host h; id = C.nobj < MAXOBJ ? C.nobj++ : -1; } if (id >= 0) { q = new Obj(id); m = Val(); m.t = Val::OBJ; m.i = id; } break; }
    case 1: q = (Obj*)0; m = Val(); break;
    case 2: { Obj* raw = q ? &*q : 0; q = raw; break; }   // re-assign own raw pointer
    case 3: { // new chain a -> b -> c whose tail objects are kept alive only through their predecessor
      int ids[3] = {-1, -1, -1}; int n = 2 + (int)(param % 2); { Host h; for (int c = 0; c < n; ++c) ids[c] = C.nobj < MAXOBJ ? C.nobj++ : -1; }
      if (ids[n - 1] >= 0) { Obj* o = 0; for (int c = n - 1; c >= 0; --c) o = new Obj(ids[c], o); q = o; m = Val(); m.t = Val::OBJ; m.i = ids[0]; probe("chain_created"); }
      break; }
    case 4: { // advance along the chain: the new pointee is referenced only from the object the handle is about to release
      int nxt = -1; if (m.t == Val::OBJ) { Host h; nxt = C.nextId[m.i]; }
      if (nxt >= 0) { Obj* n = &*q->next; q = n; m.i = nxt; probe("chain_advanced"); }
      break; }
    }
    break; }
  }
  { Host h; C.model[w][j] = m; }
}

static void worker(void* a) {
  int w = (int)(intptr_t)a;
  const RunSpec& s = *C.spec;
  for (size_t n = 0; n < s.plan.size(); ++n) {
    const Op& op = s.plan[n];
    if (op.task != w) continue;
    int i = (int)(op.a[0] % C.k), j = (int)(op.a[1] % C.k);
    char* pi = C.slots[w] + i * SLOT; char* pj = C.slots[w] + j * SLOT;
    switch (op.code) {
    case O_COPY: if (i != j) { destroy(pj); copyConstruct(pj, pi); Host h; C.model[w][j] = C.model[w][i]; } break;
    case O_ASSIGN: { assign(pj, pi); Host h; C.model[w][j] = C.model[w][i]; if (i == j) probe("self_assign"); } break;
    case O_RECREATE: { Val v; { Host h; if (C.fam == F_PTR) { v.t = C.nobj < MAXOBJ ? Val::OBJ : Val::NUL; v.i = C.nobj < MAXOBJ ? C.nobj++ : 0; } else if (C.fam == F_STRING) { v.t = Val::STR; v.s = genStr(op.a[2]); } else if (C.fam == F_VARIANT) { v.t = Val::STR; v.s = genStr(op.a[2]); } else { v.t = Val::XTEXT; v.s = genStr(op.a[2]); } } destroy(pj); construct(pj, v); Host h; C.model[w][j] = v; } break;
    case O_MUTATE: mutate(w, j, (uint64_t)op.a[2], (uint64_t)op.a[3]); break;
    case O_SWAP: if (C.fam == F_PTR) { PT(pi).swap(PT(pj)); Host h; std::swap(C.model[w][i], C.model[w][j]); if (i != j && C.model[w][i].i != C.model[w][j].i) probe("swap_distinct_objects"); } else if (C.fam == F_VARIANT) { V(pi).swap(V(pj)); Host h; std::swap(C.model[w][i], C.model[w][j]); } break;
    case O_SEND: { int t = (int)(op.a[2] % C.nt); Ctx::Box& b = C.box[t]; b.mx->lock(); if (b.count < RING) { int pos = (b.head + b.count) % RING; copyConstruct(b.ring + pos * SLOT, pi); b.count = b.count + 1; Host h; b.vals.push_back(C.model[w][i]); probe("handle_sent"); } b.mx->unlock(); } break;
    case O_RECV: { Ctx::Box& b = C.box[w]; b.mx->lock(); if (b.count > 0) { char* src = b.ring + b.head * SLOT; destroy(pj); copyConstruct(pj, src); destroy(src); b.head = (b.head + 1) % RING; b.count = b.count - 1; Host h; C.model[w][j] = b.vals.front(); b.vals.erase(b.vals.begin()); probe("handle_received"); } b.mx->unlock(); } break;
    case O_READ: break;
    case O_WORK: for (volatile int q = 0; q < (int)(op.a[2] % 8); ++q) yieldMem(); break;
    }
    verifyAll(w, opName(op.code));
  }
}

static void mainTask(void*) {
  const RunSpec& s = *C.spec;
  uint64_t mark = memMark(); (void)mark;
  for (int w = 0; w < C.nt; ++w) { C.slots[w] = new char[C.k * SLOT]; C.box[w].mx = new Mutex; C.box[w].ring = new char[RING * SLOT]; C.box[w].head = 0; C.box[w].count = 0; }
  // roots: 1-2 common payloads; every slot of every task starts as a copy of a root
  int nroots = 1 + (int)(simdrv::knob(s, "roots", 0) % 2);
  char roots[2][SLOT]; Val rv[2];
  for (int r = 0; r < nroots; ++r) {
    Host h; uint64_t g = (uint64_t)simdrv::knob(s, r ? "root1" : "root0", 3);
    switch (C.fam) {
    case F_STRING: rv[r].t = Val::STR; rv[r].s = genStr(g); break;
    case F_VARIANT: { int kind = g % 4; if (kind == 0) { rv[r].t = Val::STR; rv[r].s = genStr(g / 4); } else { rv[r].t = kind == 1 ? Val::LIST : kind == 2 ? Val::ARR : Val::MAP; for (int q = 0; q < 2; ++q) { Val c; c.t = q ? Val::STR : Val::INT; c.s = genStr(g / 4 + q); c.i = (long)(g % 97); rv[r].kids.push_back({"r" + std::to_string(q), c}); } if ((g / 16) % 2) { Val nest; nest.t = Val::MAP; Val c; c.t = Val::STR; c.s = "nested"; nest.kids.push_back({"n", c}); rv[r].kids.push_back({"rn", nest}); } } break; }
    case F_XML: if (g % 3 == 0) { rv[r].t = Val::XTEXT; rv[r].s = genStr(g / 3); } else { rv[r].t = Val::XELEM; rv[r].s = "root"; rv[r].attrs.push_back({"id", genStr(g / 3)}); Val c; c.t = Val::XTEXT; c.s = "text"; rv[r].kids.push_back({"", c}); if (g % 3 == 2) { Val e; e.t = Val::XELEM; e.s = "child"; rv[r].kids.push_back({"", e}); } } break;
    case F_PTR: rv[r].t = Val::OBJ; rv[r].i = C.nobj++; break;
    }
  }
  for (int r = 0; r < nroots; ++r) construct(roots[r], rv[r]);
  for (int w = 0; w < C.nt; ++w) for (int j = 0; j < C.k; ++j) { int r = (w + j) % nroots; copyConstruct(C.slots[w] + j * SLOT, roots[r]); Host h; C.model[w][j] = rv[r]; }
  for (int r = 0; r < nroots; ++r) destroy(roots[r]);
  static intptr_t ids[4];
  for (int w = 0; w < C.nt; ++w) { ids[w] = w; C.taskIds[w] = spawn(worker, (void*)ids[w], "worker"); }
  for (int w = 0; w < C.nt; ++w) joinTask(C.taskIds[w]);
  // final: every handle still holds its value; then destroy everything
  for (int w = 0; w < C.nt; ++w) verifyAll(w, "end of run");
  for (int w = 0; w < C.nt; ++w) {
    for (int j = 0; j < C.k; ++j) destroy(C.slots[w] + j * SLOT);
    Ctx::Box& b = C.box[w];
    for (int q = 0; q < b.count; ++q) { char* src = b.ring + ((b.head + q) % RING) * SLOT; Val m; { Host h; m = b.vals[q]; } if (!verifySlot(src, m)) { char cls[64]; snprintf(cls, sizeof cls, "C09/%s/value_changed", famName[C.fam]); fail(cls, "mailbox entry changed"); } destroy(src); }
    delete[] C.slots[w]; delete[] b.ring; delete b.mx;
  }
}

static void finalize() {
  char cls[64];
  if (C.fam == F_PTR) for (int i = 0; i < C.nobj; ++i) if (C.constructed[i] && C.destroyed[i] != 1) { failSoft("C09/ptr/destructor_count", "object %d constructed %d times, destroyed %d times", i, C.constructed[i], C.destroyed[i]); return; }
  snprintf(cls, sizeof cls, "C09/%s/payload_leaked", famName[C.fam]);
  memCheckLeaks(cls);
}

static void generate(RunSpec& s, int tier) {
  uint64_t z = s.seed;
  auto r = [&](uint64_t n) { z += 0x9e3779b97f4a7c15ULL; uint64_t x = z; x = (x ^ (x >> 30)) * 0xbf58476d1ce4e5b9ULL; x = (x ^ (x >> 27)) * 0x94d049bb133111ebULL; x ^= x >> 31; return n ? x % n : x; };
  int fam = (int)r(F_N); int nt = 1 + (int)r(4); int k = 2 + (int)r(4);
  s.knobs["family"] = fam; s.knobs["ntasks"] = nt; s.knobs["slots"] = k; s.knobs["roots"] = r(2); s.knobs["root0"] = r(1000); s.knobs["root1"] = r(1000);
  static const int memk[] = {1, 2, 3, 5, 7}; static const int synck[] = {0, 1, 2, 3};
  s.knobs["mem_switch_log2"] = memk[r(5)]; s.knobs["sync_switch_log2"] = synck[r(4)];
  /* map focus: a third of the Variant/Xml plans concentrate on inserting, overwriting and removing keys of one bucket chain in few slots */
  bool mapFocus = (fam == F_VARIANT || fam == F_XML) && r(3) == 0; s.knobs["map_focus"] = mapFocus;
  for (int w = 0; w < nt; ++w) {
    int n = 2 + (int)r(11);
    for (int i = 0; i < n; ++i) {
      Op o; o.task = w; o.a[0] = (int64_t)r(k); o.a[1] = (int64_t)r(k); o.a[2] = (int64_t)r(1000); o.a[3] = (int64_t)r(1000);
      uint64_t c = r(100);
      if (mapFocus && r(10) < 7) { c = 50; o.a[1] = (int64_t)r(2); bool ins = r(5) < 3; o.a[2] = fam == F_VARIANT ? (int64_t)(21 * r(50) + (ins ? 8 : (r(4) ? 9 : 16 + (int64_t)r(2)))) : (int64_t)(10 * r(50) + (ins ? 5 : 6)); }
      o.code = c < 18 ? O_COPY : c < 34 ? O_ASSIGN : c < 42 ? O_RECREATE : c < 66 ? O_MUTATE : c < 74 ? O_SWAP : c < 84 ? O_SEND : c < 94 ? O_RECV : c < 97 ? O_READ : O_WORK;
      if (o.code == O_ASSIGN && r(10) == 0) o.a[1] = o.a[0];
      s.plan.push_back(o);
    }
  }
  (void)tier;
}

static Result execute(const RunSpec& s, bool keepLog) {
  Config cfg;
  cfg.mem_switch_log2 = (int)simdrv::knob(s, "mem_switch_log2", 3); cfg.sync_switch_log2 = (int)simdrv::knob(s, "sync_switch_log2", 1);
  cfg.step_budget = 3000000; cfg.keep_log = keepLog;
  C.spec = &s; C.fam = (int)simdrv::knob(s, "family", 0) % F_N; C.nt = (int)simdrv::knob(s, "ntasks", 1); if (C.nt < 1) C.nt = 1; if (C.nt > 4) C.nt = 4; C.k = (int)simdrv::knob(s, "slots", 2); if (C.k < 1) C.k = 1; if (C.k > 5) C.k = 5;
  for (int w = 0; w < 4; ++w) { C.model[w].assign(C.k, Val()); C.box[w].vals.clear(); C.box[w].mx = 0; C.box[w].ring = 0; C.slots[w] = 0; }
  memset(C.nextId, -1, sizeof C.nextId); memset(C.constructed, 0, sizeof C.constructed); memset(C.destroyed, 0, sizeof C.destroyed); C.nobj = 0; C.uniq = 0;
  Hooks h; h.main_fn = mainTask; h.finalize = finalize;
  Result r = run(s, cfg, h);
  r.probes[std::string("family_") + famName[C.fam]]++;
  if (C.nt == 1) r.probes["single_task_history"]++;
  return r;
}

static void warmup() {   // construct function-local statics of the library outside any run (their guards persist across runs)
  Variant v; const Variant& cv = v; (void)cv.toMap().size(); (void)cv.toList().size(); (void)cv.toArray().size();
  Xml::Variant x; const Xml::Variant& cx = x; (void)cx.toElement().content.size();
}

static simdrv::Harness H = {"C09", "c09_refcount", generate, execute, opName, nullptr, nullptr, "", ""};
int main(int argc, char** argv) { warmup(); return simdrv::main(argc, argv, H); }
