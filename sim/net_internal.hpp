// simnet internals shared between net.cpp and proc.cpp
#pragma once
#include "sim.hpp"
#include "internal.hpp"
#include "net.hpp"
#include <deque>
#include <map>
#include <vector>
#include <stdint.h>

namespace simnet {

enum FileKind { FK_STREAM, FK_LISTENER, FK_EPOLL, FK_EVENTFD, FK_PIPE_R, FK_PIPE_W, FK_UNBOUND };

struct File {
  FileKind kind; int refs; int id;            // id: stable identity for logs
  bool nonblock; bool unixDomain;
  // stream endpoint / pipe read end: bytes waiting to be read here
  std::deque<unsigned char> q; size_t capacity;
  File* peer;                                 // stream: other endpoint; pipe_w: read end; pipe_r: write end
  bool peerClosed;                            // peer endpoint closed (FIN) / all pipe writers closed
  uint32_t inEdge, outEdge; bool nospace;     // edge-triggered epoll: counters of "became readable" / "became writable again" events; nospace: a send found no (or too little) room since the last such event
  bool connected, connecting, refused; int64_t connectAt; int soError;
  uint32_t localIp, peerIp; uint16_t localPort, peerPort;
  // listener
  std::deque<File*> acceptQ; bool listening;
  // epoll
  struct Interest { uint32_t events; uint64_t data; uint32_t seenIn, seenOut; File* file; };   // file: the open file description the registration belongs to (it outlives the descriptor number while duplicates of the description stay open)   // seen*: edge counters of the file at the last report (EPOLLET registrations)
  std::map<int, Interest> interest;           // fd -> interest (keyed by fd number like the kernel; entries die with the file)
  // eventfd
  uint64_t counter;
  // statistics
  FdStats st;
  int writers;                                // pipe read end: number of open write-end descriptions
};

struct FdTable { std::map<int, File*> m; };

FdTable& curTable();
FdTable& rootFdTable();
void setTaskTable(int task, FdTable* t);
ssize_t fileWrite(int fd, File* f, const void* buf, size_t n);
ssize_t fileRead(int fd, File* f, void* buf, size_t n);
int fileClose(int fd);
File* lookup(int fd);
int installFd(FdTable& t, File* f, int minFd);
File* newFile(FileKind k);
void refFile(File* f);
void unrefFile(File* f);         // closes on last reference
void wakeAllNet();
bool netBlock(const char* what, int64_t deadlineMono);   // block current task until any net state change or deadline; true if timed out
void pump();                     // run due timers
int64_t nextTimer();
void addTimer(int64_t at, void (*fn)(void*), void* arg);
struct HostG { HostG() { sim::g_host_depth_export++; } ~HostG() { sim::g_host_depth_export--; } };
uint32_t readiness(File* f, uint32_t want);   // EPOLL* bits currently true for f, masked like the kernel does

} // namespace simnet
