// Linearizability checker (Wing-Gong / Lowe style DFS with memoisation) over short histories.
#pragma once
#include <stdint.h>
#include <vector>
#include <set>
#include <unordered_set>

namespace lin {

struct Op { int task; int code; int64_t arg; int result; uint64_t inv, ret; bool pending; int64_t inv_rt, ret_rt; };
struct State { int64_t a, b; bool operator<(const State& o) const { return a != o.a ? a < o.a : b < o.b; } };

// apply(op, state): returns false if op (with its recorded result) is not allowed in state; otherwise updates state.
typedef bool (*ApplyFn)(const Op&, State&);

struct Checker {
  const std::vector<Op>& ops; ApplyFn apply; bool pendingMayApply;
  std::unordered_set<uint64_t> seen; std::set<State> finals; uint32_t completeMask = 0; uint64_t nodes = 0; bool found = false; bool collectAll;
  Checker(const std::vector<Op>& o, ApplyFn f, bool pend, bool all) : ops(o), apply(f), pendingMayApply(pend), collectAll(all) { for (size_t i = 0; i < ops.size(); ++i) if (!ops[i].pending) completeMask |= 1u << i; }
  void dfs(uint32_t mask, State st) {
    if (found && !collectAll) return;
    uint64_t key = ((uint64_t)mask * 0x9e3779b97f4a7c15ULL) ^ ((uint64_t)st.a * 0xff51afd7ed558ccdULL) ^ ((uint64_t)st.b * 0xc4ceb9fe1a85ec53ULL + 0x1234567);
    if (!seen.insert(key).second) return;
    nodes++;
    if ((mask & completeMask) == completeMask) { found = true; finals.insert(st); if (!collectAll) return; }
    if (nodes > 2000000) return;
    // earliest return among un-linearised completed ops
    uint64_t minRet = ~0ULL;
    for (size_t j = 0; j < ops.size(); ++j) if (!(mask & (1u << j)) && !ops[j].pending && ops[j].ret < minRet) minRet = ops[j].ret;
    for (size_t i = 0; i < ops.size(); ++i) {
      if (mask & (1u << i)) continue;
      if (ops[i].pending && !pendingMayApply) continue;
      if (ops[i].inv > minRet) continue;      // some other op returned before this one was invoked: it must go first
      State s2 = st;
      if (!apply(ops[i], s2)) continue;
      dfs(mask | (1u << i), s2);
    }
  }
};

// returns true if linearizable; finals (optional) receives every model state reachable after all completed operations
inline bool check(const std::vector<Op>& ops, ApplyFn apply, State init, bool pendingMayApply, std::set<State>* finals, uint64_t* nodes = nullptr) {
  if (ops.size() > 30) return true;   // bound: caller keeps histories short
  Checker c(ops, apply, pendingMayApply, finals != nullptr);
  c.dfs(0, init);
  if (finals) *finals = c.finals;
  if (nodes) *nodes = c.nodes;
  return c.found;
}

} // namespace lin
