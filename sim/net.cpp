// simnet: stream sockets (unix pairs and loopback TCP), listeners, epoll, eventfd, DNS.
// Reached from libnstd + harness objects through symbol redirection; descriptors it did not create pass through to the kernel.
// Compiled WITHOUT instrumentation.
#include "net_internal.hpp"
#include <signal.h>
namespace simfs { bool active(); bool isFileFd(int fd); ssize_t fsWrite(int fd, const void* b, size_t n); ssize_t fsRead(int fd, void* b, size_t n); int fsClose(int fd); }
#include <sys/socket.h>
#include <sys/epoll.h>
#include <sys/eventfd.h>
#include <netinet/in.h>
#include <arpa/inet.h>
#include <netdb.h>
#include <fcntl.h>
#include <unistd.h>
#include <errno.h>
#include <string.h>
#include <stdlib.h>
#include <stdarg.h>
#include <algorithm>

using namespace sim;

namespace simnet {

static FdTable rootTable;
static FdTable* taskTable[80];   // per task descriptor table (simulated child processes have their own); null = the process' root table
static int nextSockFd = 100000, nextFileId = 1;
static size_t defaultCap = 65536;
static std::vector<int> netWaiters;
static void (*sendHook)(int, size_t) = 0;
static void (*failHook)(int, bool, int) = 0;
static std::map<uint16_t, File*> listeners;
static uint16_t nextPort = 40000;
static int dnsDelayMs = 5;
struct Timer { int64_t at; void (*fn)(void*); void* arg; uint64_t seq; };
static std::vector<Timer> timers; static uint64_t timerSeq = 0;
static std::vector<File*> allFiles;
static uint64_t epollWaitCallCount = 0;   // epoll_wait calls in this run (poll rounds of an event loop)
static void callFailHook(int fd, bool isSend, int err);

static void resetNet() {
  for (File* f : allFiles) delete f;
  allFiles.clear(); rootTable.m.clear(); memset(taskTable, 0, sizeof taskTable); nextSockFd = 100000; nextFileId = 1; defaultCap = 65536; netWaiters.clear(); sendHook = 0; failHook = 0;
  listeners.clear(); nextPort = 40000; timers.clear(); timerSeq = 0; dnsDelayMs = 5; epollWaitCallCount = 0;
}
static struct Reg { Reg() { addResetHook(resetNet); } } reg;

FdTable& curTable() { int t = self(); return (t >= 0 && t < 80 && taskTable[t]) ? *taskTable[t] : rootTable; }
void setTaskTable(int task, FdTable* t) { if (task >= 0 && task < 80) taskTable[task] = t; }
FdTable& rootFdTable() { return rootTable; }
File* lookup(int fd) { FdTable& t = curTable(); auto it = t.m.find(fd); return it == t.m.end() ? nullptr : it->second; }
bool isSimFd(int fd) { return inRun() && lookup(fd) != nullptr; }
File* newFile(FileKind k) {
  File* f = new File(); f->kind = k; f->refs = 0; f->id = nextFileId++; f->nonblock = false; f->unixDomain = false; f->capacity = defaultCap; f->peer = 0; f->peerClosed = false; f->inEdge = f->outEdge = 0; f->nospace = false;
  f->connected = f->connecting = f->refused = false; f->connectAt = 0; f->soError = 0; f->localIp = f->peerIp = 0; f->localPort = f->peerPort = 0; f->listening = false; f->counter = 0; f->writers = 0;
  memset(&f->st, 0, sizeof f->st); allFiles.push_back(f); return f;
}
int installFd(FdTable& t, File* f, int minFd) {
  int fd = minFd;
  if (minFd >= 100000) fd = nextSockFd++;
  else while (t.m.count(fd)) ++fd;
  t.m[fd] = f; f->refs++; return fd;
}
void refFile(File* f) { f->refs++; }
void wakeAllNet() { std::vector<int> w; w.swap(netWaiters); for (int id : w) wake(id); }
static void closeFile(File* f) {
  // last descriptor referring to f went away
  switch (f->kind) {
  case FK_STREAM: if (f->peer) { f->peer->peerClosed = true; f->peer->inEdge++; f->peer->outEdge++; f->peer->peer = 0; f->peer = 0; } break;
  case FK_LISTENER: if (f->listening) { auto it = listeners.find(f->localPort); if (it != listeners.end() && it->second == f) listeners.erase(it); } for (File* c : f->acceptQ) { if (c->peer) { c->peer->peerClosed = true; c->peer->peer = 0; } } f->acceptQ.clear(); break;
  case FK_PIPE_W: if (f->peer) { if (--f->peer->writers <= 0) f->peer->peerClosed = true; } break;
  case FK_PIPE_R: f->peerClosed = true; break;    // writers see EPIPE via readerGone (peer pointer of the write ends)
  default: break;
  }
  f->kind == FK_PIPE_R ? (void)(f->capacity = 0) : (void)0;
  f->refs = -1;   // dead marker (memory reclaimed at reset)
}
void unrefFile(File* f) { if (--f->refs == 0) closeFile(f); wakeAllNet(); }
bool netBlock(const char* what, int64_t deadline) {
  int64_t nt = nextTimer();
  bool own = true;
  if (nt >= 0 && (deadline < 0 || nt < deadline)) { deadline = nt; own = false; }
  netWaiters.push_back(self());
  bool to = blockOn(what, 0, deadline);
  if (to) netWaiters.erase(std::remove(netWaiters.begin(), netWaiters.end(), self()), netWaiters.end());
  pump();
  return to && own;
}
int64_t nextTimer() { int64_t m = -1; for (auto& t : timers) if (m < 0 || t.at < m) m = t.at; return m; }
void addTimer(int64_t at, void (*fn)(void*), void* arg) { timers.push_back(Timer{at, fn, arg, ++timerSeq}); wakeAllNet(); }
void pump() {
  for (;;) {
    int64_t now = nowNs(); int best = -1;
    for (size_t i = 0; i < timers.size(); ++i) if (timers[i].at <= now && (best < 0 || timers[i].at < timers[best].at || (timers[i].at == timers[best].at && timers[i].seq < timers[best].seq))) best = (int)i;
    if (best < 0) return;
    Timer t = timers[best]; timers.erase(timers.begin() + best);
    t.fn(t.arg); wakeAllNet();
  }
}

FdStats stats(int fd) { File* f = lookup(fd); FdStats z; memset(&z, 0, sizeof z); return f ? f->st : z; }
void setDefaultCapacity(size_t b) { defaultCap = b ? b : 1; }
void setCapacity(int fd, size_t b) { File* f = lookup(fd); if (f) { f->capacity = b ? b : 1; if (f->peer && f->peer->nospace && f->q.size() < f->capacity) { f->peer->nospace = false; f->peer->outEdge++; } wakeAllNet(); } }
size_t queued(int fd) { File* f = lookup(fd); return f ? f->q.size() : 0; }
bool peerClosed(int fd) { File* f = lookup(fd); return f ? f->peerClosed : true; }
void setSendHook(void (*fn)(int, size_t)) { sendHook = fn; }
void setFailHook(void (*fn)(int, bool, int)) { failHook = fn; }
void setDnsDelayMs(int ms) { dnsDelayMs = ms; }
int openFdCount() { return (int)rootTable.m.size(); }
uint64_t epollWaitCalls() { return epollWaitCallCount; }
int fileIdWatermark() { return nextFileId; }
size_t acceptQueueLen(int fd) { File* f = lookup(fd); return (f && f->kind == FK_LISTENER) ? f->acceptQ.size() : 0; }
size_t peerSpace(int fd) { File* f = lookup(fd); if (!f || !f->peer || f->peerClosed) return 0; return f->peer->q.size() < f->peer->capacity ? f->peer->capacity - f->peer->q.size() : 0; }

static void callFailHook(int fd, bool isSend, int err) { NoPreempt np; failHook(fd, isSend, err); }
static void completeConnect(void* a) { File* f = (File*)a; if (f->refs > 0 && f->connecting) { f->connecting = false; f->inEdge++; f->outEdge++; if (!f->refused) f->connected = true; else f->soError = ECONNREFUSED; } }

uint32_t readiness(File* f, uint32_t want) {
  uint32_t r = 0;
  switch (f->kind) {
  case FK_STREAM:
    if (f->connecting) return 0;
    if (f->refused) { r = EPOLLERR | EPOLLHUP | ((EPOLLIN | EPOLLOUT | EPOLLRDHUP) & want); return r; }
    if (!f->connected) return EPOLLHUP | (EPOLLOUT & want);
    if (!f->q.empty() || f->peerClosed) r |= EPOLLIN & want;
    if (f->peerClosed) { r |= EPOLLRDHUP & want; if (f->unixDomain) r |= EPOLLHUP; }
    if (f->peerClosed || (f->peer && f->peer->q.size() < f->peer->capacity)) r |= EPOLLOUT & want;
    break;
  case FK_LISTENER: if (!f->acceptQ.empty()) r |= EPOLLIN & want; break;
  case FK_EVENTFD: if (f->counter > 0) r |= EPOLLIN & want; r |= EPOLLOUT & want; break;
  case FK_PIPE_R: if (!f->q.empty()) r |= EPOLLIN & want; if (f->peerClosed) r |= EPOLLHUP; break;
  case FK_PIPE_W: if (!f->peer || f->peer->refs <= 0) r |= EPOLLERR; else if (f->peer->q.size() < f->peer->capacity) r |= EPOLLOUT & want; break;
  default: break;
  }
  return r;
}

static ssize_t streamSend(int fd, File* f, const void* buf, size_t n) {
  chargeCall(); yieldSync();
  for (;;) {
    f->st.send_calls++;
    if (f->kind == FK_STREAM) {
      if (!f->connected) { errno = f->refused ? ECONNREFUSED : ENOTCONN; if (failHook) callFailHook(fd, true, errno); return -1; }
      if (f->peerClosed || !f->peer) { errno = EPIPE; logEvent("send_epipe", f->id); if (failHook) callFailHook(fd, true, EPIPE); return -1; }
    } else { // pipe write end
      if (!f->peer || f->peer->refs <= 0) { errno = EPIPE; if (failHook) callFailHook(fd, true, EPIPE); return -1; }
    }
    File* dst = f->peer;
    size_t space = dst->q.size() < dst->capacity ? dst->capacity - dst->q.size() : 0;
    size_t k = std::min(n, space);
    if (n == 0) return 0;
    int c = (f->nonblock && k > 0) ? choose(f->kind == FK_STREAM ? K_SEND : K_PIPE, 5) : 0;
    if (c == 1) { fault("send_eagain"); k = 0; }
    else if (c == 2 && k > 1) { fault("send_partial"); k = 1; }
    else if (c == 3 && k > 1) { fault("send_partial"); k = k / 2; }
    else if (c == 4 && k > 1) { fault("send_partial"); k = k - 1; }
    if (k < n) f->nospace = true;
    if (k == 0) {
      if (f->nonblock) { errno = EAGAIN; logEvent("send_eagain", f->id, (int64_t)n); return -1; }
      netBlock("send", -1);
      continue;
    }
    const unsigned char* p = (const unsigned char*)buf;
    dst->q.insert(dst->q.end(), p, p + k); dst->inEdge++;
    f->st.bytes_out += k; dst->st.bytes_in += 0;
    logEvent("send", f->id, (int64_t)n, (int64_t)k);
    if (sendHook) { NoPreempt np; sendHook(fd, k); }
    wakeAllNet();
    return (ssize_t)k;
  }
}
static ssize_t streamRecv(int fd, File* f, void* buf, size_t n) {
  chargeCall(); yieldSync();
  for (;;) {
    f->st.recv_calls++;
    if (f->kind == FK_STREAM && !f->connected) { errno = f->refused ? ECONNREFUSED : ENOTCONN; if (failHook) callFailHook(fd, false, errno); return -1; }
    if (f->q.empty()) {
      if (f->peerClosed) { logEvent("recv_eof", f->id); if (failHook) callFailHook(fd, false, 0); return 0; }
      if (f->nonblock) { errno = EAGAIN; return -1; }
      netBlock("recv", -1);
      continue;
    }
    if (n == 0) return 0;
    size_t k = std::min(n, f->q.size());
    int c = k > 1 ? choose(f->kind == FK_STREAM ? K_RECV : K_PIPE, 3) : 0;
    if (c == 1) { fault("recv_partial"); k = 1; } else if (c == 2) { fault("recv_partial"); k = (k + 1) / 2; }
    unsigned char* p = (unsigned char*)buf;
    for (size_t i = 0; i < k; ++i) { p[i] = f->q.front(); f->q.pop_front(); }
    if (f->peer && (f->peer->nospace || f->unixDomain) && f->q.size() < f->capacity) { f->peer->nospace = false; f->peer->outEdge++; }   /* room again: TCP tells a sender that had found none, a unix socket tells its sender whenever the reader frees a buffer */
    f->st.bytes_in += k;
    logEvent("recv", f->id, (int64_t)n, (int64_t)k);
    wakeAllNet();
    return (ssize_t)k;
  }
}

ssize_t fileWrite(int fd, File* f, const void* buf, size_t n) {
  if (f->kind == FK_EVENTFD) {
    chargeCall(); yieldSync();
    if (n < 8) { errno = EINVAL; return -1; }
    uint64_t v; memcpy(&v, buf, 8); f->counter += v; logEvent("eventfd_write", f->id, (int64_t)v); wakeAllNet(); return 8;
  }
  if (f->kind == FK_STREAM || f->kind == FK_PIPE_W) return streamSend(fd, f, buf, n);
  errno = EBADF; return -1;
}
ssize_t fileRead(int fd, File* f, void* buf, size_t n) {
  if (f->kind == FK_EVENTFD) {
    chargeCall(); yieldSync();
    if (n < 8) { errno = EINVAL; return -1; }
    while (f->counter == 0) { if (f->nonblock) { errno = EAGAIN; return -1; } netBlock("eventfd_read", -1); }
    uint64_t v = f->counter; f->counter = 0; memcpy(buf, &v, 8); logEvent("eventfd_read", f->id, (int64_t)v); wakeAllNet(); return 8;
  }
  if (f->kind == FK_STREAM || f->kind == FK_PIPE_R) return streamRecv(fd, f, buf, n);
  errno = EBADF; return -1;
}
int fileClose(int fd) {
  chargeCall(); yieldSync();            // yield first: the table may change while we are pre-empted (e.g. the process gets killed)
  FdTable& tb = curTable();
  auto it = tb.m.find(fd);
  if (it == tb.m.end()) { errno = EBADF; return -1; }
  File* f = it->second; tb.m.erase(it);
  // like the kernel: a registration belongs to the open file description; it disappears when the LAST descriptor for that description is closed
  // (a duplicate - dup(), a forked child - keeps it alive, and its events keep being reported although the registered number is gone)
  if (f->refs <= 1) { for (File* e : allFiles) if (e->kind == FK_EPOLL && e->refs > 0) for (auto i2 = e->interest.begin(); i2 != e->interest.end();) { if (i2->second.file == f) i2 = e->interest.erase(i2); else ++i2; } }
  else probe("descriptor_closed_registration_survives");
  logEvent("close", f->id);
  unrefFile(f);
  return 0;
}

} // namespace simnet

using namespace simnet;

extern "C" {

int __wrap_socket(int domain, int type, int protocol) {
  if (!inTask()) return socket(domain, type, protocol);
  HostG h; chargeCall(); yieldSync();
  if ((type & 0xf) != SOCK_STREAM) { errno = EPROTONOSUPPORT; return -1; }
  File* f = newFile(FK_STREAM); f->nonblock = (type & SOCK_NONBLOCK) != 0; f->unixDomain = (domain == AF_UNIX);
  int fd = installFd(curTable(), f, 100000); logEvent("socket", f->id); return fd;
}
int __wrap_socketpair(int domain, int type, int protocol, int sv[2]) {
  if (!inTask()) return socketpair(domain, type, protocol, sv);
  HostG h; chargeCall(); yieldSync();
  File* a = newFile(FK_STREAM); File* b = newFile(FK_STREAM);
  a->peer = b; b->peer = a; a->connected = b->connected = true; a->unixDomain = b->unixDomain = true;
  a->nonblock = b->nonblock = (type & SOCK_NONBLOCK) != 0;
  sv[0] = installFd(curTable(), a, 100000); sv[1] = installFd(curTable(), b, 100000);
  logEvent("socketpair", a->id, b->id);
  return 0;
}
int __wrap_bind(int fd, const struct sockaddr* addr, socklen_t len) {
  File* f = inTask() ? lookup(fd) : 0; if (!f) return bind(fd, addr, len);
  HostG h; chargeCall(); yieldSync();
  const struct sockaddr_in* sin = (const struct sockaddr_in*)addr;
  uint16_t port = ntohs(sin->sin_port); if (!port) port = nextPort++;
  if (listeners.count(port)) { errno = EADDRINUSE; return -1; }
  f->localIp = ntohl(sin->sin_addr.s_addr); f->localPort = port; return 0;
}
int __wrap_listen(int fd, int backlog) {
  File* f = inTask() ? lookup(fd) : 0; if (!f) return listen(fd, backlog);
  HostG h; chargeCall(); yieldSync();
  if (!f->localPort) f->localPort = nextPort++;
  if (listeners.count(f->localPort)) { errno = EADDRINUSE; return -1; }
  f->kind = FK_LISTENER; f->listening = true; listeners[f->localPort] = f; logEvent("listen", f->id, f->localPort); return 0;
}
int __wrap_connect(int fd, const struct sockaddr* addr, socklen_t len) {
  File* f = inTask() ? lookup(fd) : 0; if (!f) return connect(fd, addr, len);
  HostG h; chargeCall(); yieldSync();
  const struct sockaddr_in* sin = (const struct sockaddr_in*)addr;
  uint16_t port = ntohs(sin->sin_port);
  if (f->connected || f->connecting) { errno = EISCONN; return -1; }
  f->peerIp = ntohl(sin->sin_addr.s_addr); f->peerPort = port; if (!f->localPort) f->localPort = nextPort++; f->localIp = 0x7f000001;
  auto it = listeners.find(port);
  int c = choose(K_CONN, 4);   // 0: normal, 1: refused although a listener exists, 2: delayed 20 ms, 3: delayed 700 ms
  bool refuse = (it == listeners.end()) || c == 1;
  int64_t delay = c == 2 ? 20000000LL : c == 3 ? 700000000LL : 50000LL;
  if (c == 1 && it != listeners.end()) fault("conn_refused"); if (c >= 2) fault("conn_delay");
  f->connecting = true; f->refused = refuse; f->connectAt = nowNs() + delay;
  if (!refuse) {
    File* srv = newFile(FK_STREAM); srv->connected = true; srv->peer = f; f->peer = srv; srv->localIp = 0x7f000001; srv->localPort = port; srv->peerIp = 0x7f000001; srv->peerPort = f->localPort;
    it->second->acceptQ.push_back(srv);
  }
  logEvent("connect", f->id, port, refuse);
  addTimer(f->connectAt, completeConnect, f);
  if (f->nonblock) { errno = EINPROGRESS; return -1; }
  while (f->connecting) netBlock("connect", -1);
  if (f->refused) { errno = ECONNREFUSED; f->soError = 0; return -1; }
  return 0;
}
int __wrap_accept4(int fd, struct sockaddr* addr, socklen_t* len, int flags) {
  File* f = inTask() ? lookup(fd) : 0; if (!f) return accept4(fd, addr, len, flags);
  HostG h; chargeCall(); yieldSync();
  if (f->kind != FK_LISTENER) { errno = EINVAL; return -1; }
  while (f->acceptQ.empty()) { if (f->nonblock) { errno = EAGAIN; return -1; } netBlock("accept", -1); }
  File* c = f->acceptQ.front(); f->acceptQ.pop_front();
  c->nonblock = (flags & SOCK_NONBLOCK) != 0;
  if (addr && len && *len >= sizeof(struct sockaddr_in)) { struct sockaddr_in* sin = (struct sockaddr_in*)addr; memset(sin, 0, sizeof *sin); sin->sin_family = AF_INET; sin->sin_port = htons(c->peerPort); sin->sin_addr.s_addr = htonl(c->peerIp); *len = sizeof *sin; }
  int nfd = installFd(curTable(), c, 100000); logEvent("accept", f->id, c->id); wakeAllNet(); return nfd;
}
int __wrap_accept(int fd, struct sockaddr* addr, socklen_t* len) { return __wrap_accept4(fd, addr, len, 0); }
ssize_t __wrap_send(int fd, const void* buf, size_t n, int flags) {
  File* f = inTask() ? lookup(fd) : 0; if (!f) return send(fd, buf, n, flags);
  HostG h; ssize_t r = fileWrite(fd, f, buf, n);
  if (r < 0 && errno == EPIPE && !(flags & MSG_NOSIGNAL)) {   /* the kernel also raises SIGPIPE; unless the program handles or ignores it, that ends the process */
    struct sigaction sa; if (sigaction(SIGPIPE, 0, &sa) == 0 && sa.sa_handler == SIG_DFL) fail("stub/killed_by_SIGPIPE", "send() without MSG_NOSIGNAL on a connection whose peer is gone while SIGPIPE has its default action: the process is terminated");
    errno = EPIPE;
  }
  return r;
}
ssize_t __wrap_recv(int fd, void* buf, size_t n, int flags) {
  File* f = inTask() ? lookup(fd) : 0; if (!f) return recv(fd, buf, n, flags);
  HostG h; return fileRead(fd, f, buf, n);
}
ssize_t __wrap_write(int fd, const void* buf, size_t n) {
  File* f = inTask() ? lookup(fd) : 0; if (!f) { if (inTask() && &curTable() != &rootTable) { errno = EBADF; return -1; } /* a simulated child never touches the worker's real descriptors */ if (simfs::active() && simfs::isFileFd(fd)) return simfs::fsWrite(fd, buf, n); return write(fd, buf, n); }
  HostG h; return fileWrite(fd, f, buf, n);
}
ssize_t __wrap_read(int fd, void* buf, size_t n) {
  File* f = inTask() ? lookup(fd) : 0; if (!f) { if (inTask() && &curTable() != &rootTable) { errno = EBADF; return -1; } if (simfs::active() && simfs::isFileFd(fd)) return simfs::fsRead(fd, buf, n); return read(fd, buf, n); }
  HostG h; return fileRead(fd, f, buf, n);
}
int __wrap_close(int fd) {
  if (!inTask() || !lookup(fd)) { if (inTask() && &curTable() != &rootTable) { errno = EBADF; return -1; } if (simfs::isFileFd(fd)) return simfs::fsClose(fd); return close(fd); }
  HostG h; return fileClose(fd);
}
int __wrap_fcntl(int fd, int cmd, ...) {
  va_list ap; va_start(ap, cmd); long arg = va_arg(ap, long); va_end(ap);
  File* f = inTask() ? lookup(fd) : 0; if (!f) return fcntl(fd, cmd, arg);
  HostG h; chargeCall();
  if (cmd == F_SETFL) { f->nonblock = (arg & O_NONBLOCK) != 0; return 0; }
  if (cmd == F_GETFL) return f->nonblock ? O_NONBLOCK | O_RDWR : O_RDWR;
  if (cmd == F_SETFD || cmd == F_GETFD) return 0;
  errno = EINVAL; return -1;
}
int __wrap_setsockopt(int fd, int level, int name, const void* val, socklen_t len) {
  File* f = inTask() ? lookup(fd) : 0; if (!f) return setsockopt(fd, level, name, val, len);
  HostG h; chargeCall(); return 0;
}
int __wrap_getsockopt(int fd, int level, int name, void* val, socklen_t* len) {
  File* f = inTask() ? lookup(fd) : 0; if (!f) return getsockopt(fd, level, name, val, len);
  HostG h; chargeCall(); yieldSync();
  if (level == SOL_SOCKET && name == SO_ERROR) { int e = f->soError; f->soError = 0; memcpy(val, &e, sizeof e); *len = sizeof e; return 0; }
  int z = 0; memcpy(val, &z, sizeof z); *len = sizeof z; return 0;
}
int __wrap_getsockname(int fd, struct sockaddr* addr, socklen_t* len) {
  File* f = inTask() ? lookup(fd) : 0; if (!f) return getsockname(fd, addr, len);
  HostG h; struct sockaddr_in* sin = (struct sockaddr_in*)addr; memset(sin, 0, sizeof *sin); sin->sin_family = AF_INET; sin->sin_port = htons(f->localPort); sin->sin_addr.s_addr = htonl(f->localIp); *len = sizeof *sin; return 0;
}
int __wrap_getpeername(int fd, struct sockaddr* addr, socklen_t* len) {
  File* f = inTask() ? lookup(fd) : 0; if (!f) return getpeername(fd, addr, len);
  HostG h; if (!f->connected) { errno = ENOTCONN; return -1; }
  struct sockaddr_in* sin = (struct sockaddr_in*)addr; memset(sin, 0, sizeof *sin); sin->sin_family = AF_INET; sin->sin_port = htons(f->peerPort); sin->sin_addr.s_addr = htonl(f->peerIp); *len = sizeof *sin; return 0;
}

// ---------------------------------------------------------------- epoll / eventfd
int __wrap_epoll_create1(int flags) {
  if (!inTask()) return epoll_create1(flags);
  HostG h; chargeCall(); File* f = newFile(FK_EPOLL); return installFd(curTable(), f, 100000);
}
int __wrap_eventfd(unsigned initval, int flags) {
  if (!inTask()) return eventfd(initval, flags);
  HostG h; chargeCall(); File* f = newFile(FK_EVENTFD); f->counter = initval; f->nonblock = (flags & EFD_NONBLOCK) != 0; return installFd(curTable(), f, 100000);
}
int __wrap_epoll_ctl(int epfd, int op, int fd, struct epoll_event* ev) {
  File* e = inTask() ? lookup(epfd) : 0; if (!e) return epoll_ctl(epfd, op, fd, ev);
  HostG h; chargeCall(); yieldSync();
  if (e->kind != FK_EPOLL) { errno = EINVAL; return -1; }
  File* f = lookup(fd);
  if (!f) { errno = EBADF; logEvent("epoll_ctl_ebadf", op, fd); return -1; }
  auto it = e->interest.find(fd);
  if (it != e->interest.end() && it->second.file != f) {   /* the number was registered for another description that is still alive through a duplicate: the kernel keys by (description, number) */
    static int staleKey = -1; File::Interest old = it->second; e->interest.erase(it); e->interest[staleKey--] = old; it = e->interest.end(); }
  switch (op) {
  case EPOLL_CTL_ADD: if (it != e->interest.end()) { errno = EEXIST; return -1; } { File* tf = lookup(fd); e->interest[fd] = File::Interest{ev->events, ev->data.u64, tf ? tf->inEdge - 1 : 0, tf ? tf->outEdge - 1 : 0, tf}; } break;   /* registration and modification report a ready kind once, like the kernel */
  case EPOLL_CTL_MOD: if (it == e->interest.end()) { errno = ENOENT; return -1; } { File* tf = lookup(fd); it->second = File::Interest{ev->events, ev->data.u64, tf ? tf->inEdge - 1 : 0, tf ? tf->outEdge - 1 : 0, tf}; } break;
  case EPOLL_CTL_DEL: if (it == e->interest.end()) { errno = ENOENT; return -1; } e->interest.erase(it); break;
  default: errno = EINVAL; return -1;
  }
  logEvent("epoll_ctl", op, f->id, (ev && op != EPOLL_CTL_DEL) ? ev->events : 0);   // the event argument of DEL is ignored (libnstd passes it uninitialised)
  wakeAllNet();
  return 0;
}
int __wrap_epoll_wait(int epfd, struct epoll_event* out, int maxev, int timeout) {
  File* e = inTask() ? lookup(epfd) : 0; if (!e) return epoll_wait(epfd, out, maxev, timeout);
  HostG h; chargeCall(); yieldSync();
  epollWaitCallCount++;
  if (e->kind != FK_EPOLL || maxev <= 0) { errno = EINVAL; return -1; }
  int64_t deadline = timeout < 0 ? -1 : nowNs() + (int64_t)timeout * 1000000LL;
  if (choose(K_EINTR, 2)) { fault("eintr"); errno = EINTR; return -1; }
  for (;;) {
    pump();
    std::vector<epoll_event> ready; std::vector<int> readyFd;
    for (auto& kv : e->interest) {
      File* f = kv.second.file; if (!f || f->refs <= 0) continue;
      uint32_t r = readiness(f, kv.second.events);
      if (r && (kv.second.events & EPOLLET) && f->inEdge == kv.second.seenIn && f->outEdge == kv.second.seenOut) r = 0;   /* edge-triggered: reported only when something happened to the file since its last report - and then with its whole current ready mask, like the kernel */
      if (r) { epoll_event ev; ev.events = r; ev.data.u64 = kv.second.data; ready.push_back(ev); readyFd.push_back(kv.first); }
    }
    if (!ready.empty()) {
      if (ready.size() > 1) {
        int c = choose(K_EPOLL, 8);
        if (c & 1) { std::reverse(ready.begin(), ready.end()); fault("epoll_order"); }
        int mode = c >> 1;
        if (mode == 1) { ready.resize(1); fault("epoll_subset"); }
        else if (mode == 2) { ready.erase(ready.begin()); fault("epoll_subset"); }
        else if (mode == 3) { std::vector<epoll_event> r2; for (size_t i = 0; i < ready.size(); i += 2) r2.push_back(ready[i]); ready.swap(r2); fault("epoll_subset"); }
        probe("epoll_multi_ready");
      }
      int n = std::min((int)ready.size(), maxev);
      for (int i = 0; i < n; ++i) out[i] = ready[i];
      for (int i = 0; i < n; ++i) for (auto& kv : e->interest) if ((kv.second.events & EPOLLET) && kv.second.data == ready[i].data.u64) { File* f = kv.second.file; if (!f) continue; kv.second.seenIn = f->inEdge; kv.second.seenOut = f->outEdge; }
      logEvent("epoll_wait", n, (int64_t)ready[0].data.u64 != 0);
      return n;
    }
    if (timeout == 0 || (deadline >= 0 && nowNs() >= deadline)) { logEvent("epoll_timeout"); return 0; }
    if (netBlock("epoll_wait", deadline)) { logEvent("epoll_timeout"); return 0; }
  }
}

// ---------------------------------------------------------------- DNS
static std::vector<void*> simAddrinfos;
int __wrap_getaddrinfo(const char* node, const char* service, const struct addrinfo* hints, struct addrinfo** res) {
  if (!inTask()) return getaddrinfo(node, service, hints, res);
  HostG h; chargeCall(); yieldSync();
  int c = choose(K_DNS, 3);   // 0 ok after default delay, 1 fail, 2 slow (3 s)
  int64_t d = c == 2 ? 3000000000LL : (int64_t)dnsDelayMs * 1000000LL;
  if (c == 1) fault("dns_fail"); if (c == 2) fault("dns_delay");
  sleepNs(d);
  bool known = node && (strstr(node, "ok") != 0 || strcmp(node, "localhost") == 0);
  logEvent("getaddrinfo", known, c);
  if (!known || c == 1) return EAI_NONAME;
  struct addrinfo* ai = (struct addrinfo*)calloc(1, sizeof(struct addrinfo) + sizeof(struct sockaddr_in));
  struct sockaddr_in* sin = (struct sockaddr_in*)(ai + 1); sin->sin_family = AF_INET; sin->sin_addr.s_addr = htonl(0x7f000001);
  ai->ai_family = AF_INET; ai->ai_socktype = SOCK_STREAM; ai->ai_addr = (struct sockaddr*)sin; ai->ai_addrlen = sizeof *sin; *res = ai; simAddrinfos.push_back(ai); return 0;
}
void __wrap_freeaddrinfo(struct addrinfo* ai) {
  auto it = std::find(simAddrinfos.begin(), simAddrinfos.end(), (void*)ai);
  if (it != simAddrinfos.end()) { HostG h; simAddrinfos.erase(it); free(ai); return; }
  freeaddrinfo(ai);
}

}
