// simrt internal shared declarations
#pragma once
#include "sim.hpp"
namespace sim {
extern int g_host_depth_export;   // >0: allocations go to malloc, not the arena
bool isStackAddr(const void* p);
bool isOwnStackAddr(const void* p);
void taskReap(int id);
void memReset();
void traceDumpDiff();
void traceNote(const char* kind, int64_t a, int64_t b, int64_t c);
uint64_t currentSeed();
uint64_t switchCount();   // task switches so far in this run
void noPreemptEnter();
void noPreemptLeave();
}
