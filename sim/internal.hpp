// simrt internal shared declarations
#pragma once
#include "sim.hpp"
namespace sim {
extern int g_host_depth_export;   // >0: allocations go to malloc, not the arena
bool isStackAddr(const void* p);
void taskReap(int id);
void memReset();
void noPreemptEnter();
void noPreemptLeave();
}
