// simproc: pipes, dup2, vfork/execvpe/_exit/waitpid/kill and select on simulated descriptors.
// A "child process" is a descriptor table + a recorded exec image + (after exec) a scripted task supplied by the harness.
// vfork returns twice through sim_vfork_enter / sim_vfork_resume (sim/switch.S): the code between vfork and exec/_exit is
// libnstd's real child-side code, running on the parent's stack exactly as under a real vfork.
// Compiled WITHOUT instrumentation.
#include "net_internal.hpp"
#include "proc.hpp"
#include <sys/select.h>
#include <sys/wait.h>
#include <signal.h>
#include <unistd.h>
#include <fcntl.h>
#include <errno.h>
#include <string.h>
#include <stdlib.h>

using namespace sim;
using namespace simnet;

extern "C" int sim_vfork_enter(void* ctx);
extern "C" void sim_vfork_resume(void* ctx, int pid) __attribute__((noreturn));

namespace simproc {

static std::vector<Child*> children;
static int nextPid = 4000;
static size_t pipeCap = 65536;
static uint64_t vforkFailures = 0;
static uint64_t exitInChild = 0;       // exit() (not _exit) calls made by code running between vfork and exec
static char parentStdoutPending[128]; static size_t parentStdoutPendingLen = 0; // what the parent's stdio has buffered for its own stdout (configuration)
static bool stdinReadable = false;   // configuration: the parent's own descriptor 0 is readable (/dev/null, a file, a closed pipe - as under cron or CI) or idle (a terminal)
static void (*childMain)(Child*) = 0;
static Child* inVfork[80];          // per task: the child whose pre-exec code this task is currently executing
static uint64_t vforkCtx[80][8];

static char** savedEnviron = 0;   /* the real process environment: restored at the start of every run (code running between vfork and exec shares the parent's memory and may change it) */
static void resetProc() { if (!savedEnviron) savedEnviron = environ; environ = savedEnviron; for (Child* c : children) delete c; children.clear(); nextPid = 4000; pipeCap = 65536; stdinReadable = false; vforkFailures = 0; exitInChild = 0; parentStdoutPendingLen = 0; childMain = 0; memset(inVfork, 0, sizeof inVfork); }
static void restoreEnviron() { if (savedEnviron) environ = savedEnviron; }
static struct Reg { Reg() { addResetHook(resetProc); addEndHook(restoreEnviron); } } reg;

void setPipeCapacity(size_t n) { pipeCap = n ? n : 1; }
void setStdinReadable(bool r) { stdinReadable = r; }
uint64_t vforkFailureCount() { return vforkFailures; }
uint64_t exitInChildCount() { return exitInChild; }
void setParentStdoutPending(const char* bytes) { parentStdoutPendingLen = bytes ? std::min(strlen(bytes), sizeof parentStdoutPending) : 0; if (bytes) memcpy(parentStdoutPending, bytes, parentStdoutPendingLen); }
void setChildMain(void (*fn)(Child*)) { childMain = fn; }
const std::vector<Child*>& allChildren() { return children; }
Child* findChild(int pid) { for (Child* c : children) if (c->pid == pid) return c; return 0; }
bool childKilled(Child* c) { return c->killed; }

static void closeAll(FdTable& t) { std::vector<int> fds; for (auto& kv : t.m) fds.push_back(kv.first); for (int fd : fds) { File* f = t.m[fd]; t.m.erase(fd); unrefFile(f); } }
static void childTaskMain(void* a) {
  Child* c = (Child*)a;
  if (childMain) childMain(c);
  // process exit: every descriptor is closed
  HostG h;
  closeAll(c->table);
  if (!c->exited) { c->exited = true; c->status = (c->exitCode & 0xff) << 8; }
  logEvent("child_exit", c->pid, c->exitCode);
  wakeAllNet();
}

} // namespace simproc

using namespace simproc;

extern "C" {

// called from the assembly stub: returns the context buffer if the call is to be simulated, 0 for a real vfork
void* sim_vfork_prepare() {
  if (!inTask()) return 0;
  HostG h; chargeCall(); yieldSync();
  if (choose(K_THREADFAIL, 2)) { fault("vfork_eagain"); vforkFailures++; logEvent("vfork_failed"); errno = EAGAIN; return (void*)1; }   /* no resources for another process */
  Child* c = new Child(); c->pid = nextPid++; c->exited = c->execed = c->killed = c->reaped = false; c->status = 0; c->exitCode = 0; c->task = 0; c->parentTask = self(); c->envIsParentEnviron = false;
  FdTable& pt = curTable();
  for (auto& kv : pt.m) { c->table.m[kv.first] = kv.second; refFile(kv.second); }     // the child starts with a copy of the parent's descriptors
  children.push_back(c);
  inVfork[self()] = c; setTaskTable(self(), &c->table);
  logEvent("vfork", c->pid);
  return vforkCtx[self()];
}

static void leaveVfork(Child* c) {   // back to the parent side of vfork
  int t = self(); inVfork[t] = 0; setTaskTable(t, 0);
  g_host_depth_export = 0;           // (we do not return through the C++ frames of the wrapper that called us)
  sim_vfork_resume(vforkCtx[t], c->pid);
}

int __wrap_execvpe(const char* file, char* const argv[], char* const envp[]) {
  Child* c = inTask() ? inVfork[self()] : 0;
  if (!c) return execvpe(file, argv, envp);
  g_host_depth_export++; chargeCall(); yieldSync();
  c->program = file ? file : "";
  for (int i = 0; argv && argv[i] && i < 256; ++i) c->argv.push_back(argv[i]);
  c->envIsParentEnviron = (envp == environ);
  if (!c->envIsParentEnviron) for (int i = 0; envp && envp[i] && i < 256; ++i) c->envp.push_back(envp[i]);
  if (choose(K_CHILD, 2)) { fault("exec_failed"); logEvent("exec_failed", c->pid); errno = ENOENT; g_host_depth_export--; return -1; }
  c->execed = true;
  for (auto& kv : c->table.m) c->fdsAtExec[kv.first] = std::make_pair((int)kv.second->kind, kv.second->id);
  logEvent("exec", c->pid, (int64_t)c->argv.size());
  c->task = spawn(childTaskMain, c, "child");
  setTaskTable(c->task, &c->table);
  leaveVfork(c);
}
void __wrap__exit(int code) {
  Child* c = inTask() ? inVfork[self()] : 0;
  if (!c) _exit(code);
  g_host_depth_export++; chargeCall();
  closeAll(c->table);
  c->exited = true; c->exitCode = code; c->status = (code & 0xff) << 8;
  logEvent("child_exit_before_exec", c->pid, code);
  wakeAllNet();
  leaveVfork(c);
}
/* exit() instead of _exit() in the code between vfork and a failed exec: exit runs in the PARENT's memory with the child's descriptors - it flushes
   whatever the parent has buffered in its stdio streams into the child's descriptors and runs (and uses up) the parent's exit handlers.  The model: the
   bytes the parent's stdout buffer holds (configured per run by the harness) are written to the child's descriptor 1 when that is a pipe with room. */
void __wrap_exit(int code) {
  Child* c = inTask() ? inVfork[self()] : 0;
  if (!c) exit(code);
  g_host_depth_export++; chargeCall();
  exitInChild++;
  auto it = c->table.m.find(1);
  if (it != c->table.m.end() && it->second->kind == FK_PIPE_W && it->second->peer && parentStdoutPendingLen) {
    File* dst = it->second->peer; size_t space = dst->q.size() < dst->capacity ? dst->capacity - dst->q.size() : 0; size_t k = std::min(space, parentStdoutPendingLen);
    dst->q.insert(dst->q.end(), parentStdoutPending, parentStdoutPending + k); if (k) dst->inEdge++;
    logEvent("child_exit_flushed_parent_stdio", c->pid, (int64_t)k);
  }
  closeAll(c->table);
  c->exited = true; c->exitCode = code; c->status = (code & 0xff) << 8;
  logEvent("child_exit_handlers_before_exec", c->pid, code);
  wakeAllNet();
  leaveVfork(c);
}
pid_t __wrap_waitpid(pid_t pid, int* status, int options) {
  if (!inTask()) return waitpid(pid, status, options);
  HostG h; chargeCall(); yieldSync();
  if (pid == -1) {   /* any child */
    for (;;) { bool any = false; for (Child* k : children) { if (k->reaped) continue; any = true; if (k->exited) { k->reaped = true; if (status) *status = k->status; logEvent("waitpid_any", k->pid, k->status); probe("waitpid_any_child"); return k->pid; } }
      if (!any) { errno = ECHILD; return -1; } if (options & WNOHANG) return 0; netBlock("waitpid", -1); } }
  Child* c = findChild(pid);
  if (!c || c->reaped) { errno = ECHILD; return -1; }
  if (!c->exited && (options & WUNTRACED) && choose(K_EINTR, 2)) { fault("child_stopped"); logEvent("waitpid_stopped", pid); if (status) *status = (SIGSTOP << 8) | 0x7f; return pid; }   /* job control stops the child for a while: only a caller that asked for stopped children hears of it */
  if (!c->exited && !(options & WNOHANG) && choose(K_EINTR, 2)) { fault("eintr_waitpid"); logEvent("waitpid_eintr", pid); errno = EINTR; return -1; }   /* a handled signal interrupts a waitpid that would block; the child stays waitable */
  while (!c->exited) { if (options & WNOHANG) return 0; netBlock("waitpid", -1); }
  c->reaped = true; if (status) *status = c->status;
  logEvent("waitpid", pid, c->status);
  return pid;
}
int __wrap_waitid(idtype_t type, id_t id, siginfo_t* info, int options) {
  if (!inTask()) return waitid(type, id, info, options);
  HostG h; chargeCall(); yieldSync();
  for (;;) {
    bool any = false;
    for (Child* k : children) { if (k->reaped || (type == P_PID && k->pid != (int)id)) continue; any = true;
      if (k->exited) { memset(info, 0, sizeof *info); info->si_pid = k->pid; info->si_signo = SIGCHLD; info->si_code = (k->status & 0x7f) ? CLD_KILLED : CLD_EXITED; info->si_status = (k->status & 0x7f) ? (k->status & 0x7f) : ((k->status >> 8) & 0xff);
        if (!(options & WNOWAIT)) k->reaped = true; logEvent("waitid", k->pid, options); return 0; } }
    if (!any) { errno = ECHILD; return -1; }
    if (options & WNOHANG) { memset(info, 0, sizeof *info); return 0; }
    netBlock("waitid", -1);
  }
}
int __wrap_kill(pid_t pid, int sig) {
  if (!inTask()) return kill(pid, sig);
  HostG h; chargeCall(); yieldSync();
  if (pid == -1) {   /* every process the caller may signal: here all its live children */
    bool any = false; for (Child* k : children) if (!k->reaped && !k->exited) { any = true; k->killed = true; k->exited = true; k->status = sig & 0x7f; closeAll(k->table); logEvent("kill", k->pid, sig); probe("kill_all_children"); }
    if (any) wakeAllNet(); return 0; }
  Child* c = findChild(pid);
  if (!c || c->reaped) { errno = ESRCH; return -1; }
  if (!c->exited) { c->killed = true; c->exited = true; c->status = sig & 0x7f; closeAll(c->table); logEvent("kill", pid, sig); wakeAllNet(); }
  return 0;
}
int __wrap_pipe2(int fds[2], int flags) {
  if (!inTask()) return pipe2(fds, flags);
  HostG h; chargeCall(); yieldSync();
  File* r = newFile(FK_PIPE_R); File* w = newFile(FK_PIPE_W);
  r->capacity = pipeCap; r->writers = 1; r->peer = w; w->peer = r; r->nonblock = w->nonblock = (flags & O_NONBLOCK) != 0;
  fds[0] = installFd(curTable(), r, 500); fds[1] = installFd(curTable(), w, 500);
  logEvent("pipe", fds[0], fds[1]);
  return 0;
}
int __wrap_pipe(int fds[2]) { if (!inTask()) return pipe(fds); return __wrap_pipe2(fds, 0); }
int __wrap_dup2(int oldfd, int newfd) {
  File* f = inTask() ? lookup(oldfd) : 0;
  if (!f) return dup2(oldfd, newfd);
  HostG h; chargeCall(); yieldSync();
  if (oldfd == newfd) return newfd;
  FdTable& t = curTable();
  auto it = t.m.find(newfd); if (it != t.m.end()) { File* o = it->second; t.m.erase(it); unrefFile(o); }
  t.m[newfd] = f; refFile(f);
  logEvent("dup2", oldfd, newfd);
  return newfd;
}
int __wrap_dup3(int oldfd, int newfd, int flags) { File* f = inTask() ? lookup(oldfd) : 0; if (!f) return dup3(oldfd, newfd, flags); return __wrap_dup2(oldfd, newfd); }

int __wrap_select(int nfds, fd_set* rd, fd_set* wr, fd_set* ex, struct timeval* tv) {
  bool any = false;
  if (inTask() && rd) for (int fd = 0; fd < nfds; ++fd) if (FD_ISSET(fd, rd) && lookup(fd)) any = true;
  if (!inTask() || (!any && !(rd == 0 || tv))) return select(nfds, rd, wr, ex, tv);
  HostG h; chargeCall(); yieldSync();
  if (choose(K_EINTR, 2)) { fault("eintr"); errno = EINTR; return -1; }
  int64_t deadline = tv ? nowNs() + (int64_t)tv->tv_sec * 1000000000LL + (int64_t)tv->tv_usec * 1000LL : -1;
  for (;;) {
    fd_set out; FD_ZERO(&out); int n = 0;
    if (rd) for (int fd = 0; fd < nfds; ++fd) if (FD_ISSET(fd, rd)) { File* f = lookup(fd); if (f && (readiness(f, 0x001 /*EPOLLIN*/) || f->peerClosed)) { FD_SET(fd, &out); n++; } else if (!f && fd == 0 && stdinReadable) { FD_SET(fd, &out); n++; probe("select_reported_own_stdin"); } }
    if (n) { *rd = out; if (wr) FD_ZERO(wr); if (ex) FD_ZERO(ex); if (tv) { int64_t left = deadline - nowNs(); if (left < 0) left = 0; tv->tv_sec = left / 1000000000LL; tv->tv_usec = (left % 1000000000LL) / 1000; } logEvent("select", n); return n; }
    if (tv && nowNs() >= deadline) { if (rd) FD_ZERO(rd); if (wr) FD_ZERO(wr); if (ex) FD_ZERO(ex); tv->tv_sec = 0; tv->tv_usec = 0; logEvent("select_timeout"); probe("select_timed_out"); return 0; }   // Linux: sets cleared, timeout updated to 0
    netBlock("select", deadline);
  }
}

}
