// simrt core: fibers, scheduler, chooser, clock, log hash.  Compiled WITHOUT instrumentation.
#include "sim.hpp"
#include "internal.hpp"
#include <stdio.h>
#include <stdlib.h>
#include <string.h>
#include <stdarg.h>
#include <errno.h>
#include <unistd.h>
#include <sys/mman.h>
#include <algorithm>
#include <deque>
#include <unordered_map>

extern "C" void sim_switch(void** save_sp, void* load_sp);

namespace sim {

static const int MAXT = 64;
static const size_t STACK_SIZE = 256 * 1024;
static char* const STACK_BASE = (char*)0x100000000000ULL;

const char* kindName(int k) {
  static const char* n[] = {"preempt","blocknext","spurious_wake","wake_order","eintr","send","recv","epoll","conn","dns","fs","pipe","child","peer","harness","harness2","thread_create_failure"};
  return (k >= 0 && k < K_NKINDS) ? n[k] : "?";
}

Config::Config() { for (int i = 0; i < K_NKINDS; ++i) rate[i] = 0; rate[K_BLOCKNEXT] = 1.0; }

struct Task {
  int state; // 0 unused 1 runnable 2 blocked 3 finished
  void* sp;
  TaskFn fn; void* arg;
  int saved_errno;
  uint64_t yields;
  uint64_t next_event;      // yield count at which the slow path must run
  uint64_t next_preempt;    // yield count of next pre-emption (search: drawn; replay: from list)
  uint64_t switched_in_at;  // yields value when switched in
  uint64_t blocked_at;      // yields value when the task last blocked (spin detection)
  uint64_t blocked_step;    // global step number at which the task blocked (sleeper boost)
  int64_t dil_out;          // part of the current run's dilation already added to dilation_closed (while switched out)
  size_t replay_idx;        // index in per-task replay preemption list
  const char* what; const void* obj; int64_t deadline; bool timed_out;
  uint32_t cnt[K_NKINDS];
  int nopreempt;
  int host_depth;           // per-task value of g_host_depth_export (a task may block inside a stub that holds a host guard)
  const char* name;
  char note[64];
  std::vector<int>* joiners;
};

struct G {
  bool in_run; int cur; void* host_sp;
  Task t[MAXT + 1];
  int ntasks;                 // highest id in use
  uint64_t steps, switches;
  int64_t time_base;          // ns added by calls / jumps
  int64_t real_off;
  int64_t dilation_closed;    // dilation of finished runs (tasks that have blocked since) and of the current runs of tasks that are switched out
  bool tail; uint64_t tail_limit; bool tail_requested;
  bool budget_exhausted, quiesced;
  uint64_t s[4];   // decision prng
  uint64_t p[4];   // plan prng
  const RunSpec* spec; Config cfg; Hooks hooks;
  Result* res;
  uint64_t hash;
  std::deque<std::string>* log;
  std::unordered_map<uint64_t,int>* rdec;
  std::vector<Preemption>* rpre[MAXT + 1];
  int host_depth;
  bool stacks_mapped;
  int rr_last;
  bool ending;
  uint64_t frozen_until[MAXT + 1];   // search mode only: global step before which the chooser avoids this task (a pre-empted task stays away for long)
};
static G g;
int g_host_depth_export = 0;

// Writable static data of the library objects (sections renamed by the Makefile): snapshot at the first run, restored before every run.
extern "C" { extern char __start_nstd_bss[] __attribute__((weak)); extern char __stop_nstd_bss[] __attribute__((weak)); extern char __start_nstd_data[] __attribute__((weak)); extern char __stop_nstd_data[] __attribute__((weak)); }
static void restoreLibraryStatics() {
  static char* snapBss = 0; static char* snapData = 0; static bool taken = false;
  size_t nb = (__start_nstd_bss && __stop_nstd_bss) ? (size_t)(__stop_nstd_bss - __start_nstd_bss) : 0, nd = (__start_nstd_data && __stop_nstd_data) ? (size_t)(__stop_nstd_data - __start_nstd_data) : 0;
  if (!taken) { taken = true; if (nb) { snapBss = (char*)malloc(nb); memcpy(snapBss, __start_nstd_bss, nb); } if (nd) { snapData = (char*)malloc(nd); memcpy(snapData, __start_nstd_data, nd); } return; }
  if (nb) memcpy(__start_nstd_bss, snapBss, nb);
  if (nd) memcpy(__start_nstd_data, snapData, nd);
}
static std::vector<void(*)()>& resetHooks() { static std::vector<void(*)()> v; return v; }
void addResetHook(void (*fn)()) { resetHooks().push_back(fn); }
static std::vector<void(*)()>& endHooks() { static std::vector<void(*)()> v; return v; }
void addEndHook(void (*fn)()) { endHooks().push_back(fn); }

// ------------------------------------------------------------------ prng
static inline uint64_t rotl(uint64_t x, int k) { return (x << k) | (x >> (64 - k)); }
static uint64_t xo(uint64_t* s) {
  uint64_t r = rotl(s[1] * 5, 7) * 9, t = s[1] << 17;
  s[2] ^= s[0]; s[3] ^= s[1]; s[1] ^= s[2]; s[0] ^= s[3]; s[2] ^= t; s[3] = rotl(s[3], 45);
  return r;
}
static void seedx(uint64_t* s, uint64_t z) {
  for (int i = 0; i < 4; ++i) { z += 0x9e3779b97f4a7c15ULL; uint64_t x = z; x = (x ^ (x >> 30)) * 0xbf58476d1ce4e5b9ULL; x = (x ^ (x >> 27)) * 0x94d049bb133111ebULL; s[i] = x ^ (x >> 31); }
}
uint64_t rnd() { return xo(g.p); }
uint64_t rndBelow(uint64_t n) { return n ? xo(g.p) % n : 0; }
static uint64_t drnd() { return xo(g.s); }

// ------------------------------------------------------------------ log
static inline void hmix(uint64_t x) { g.hash = (g.hash ^ x) * 0x100000001b3ULL; g.hash ^= g.hash >> 29; }
static inline uint64_t shash(const char* s) { uint64_t h = 1469598103934665603ULL; while (*s) { h = (h ^ (unsigned char)*s++) * 0x100000001b3ULL; } return h; }
static void logText(const char* kind, int64_t a, int64_t b, int64_t c);
// allocation-free trace of everything that enters the hash (diagnosis of replay divergences)
struct TraceEv { const char* kind; int cur; uint64_t step; int64_t a, b, c; };
static TraceEv traceBuf[2][1 << 15]; static size_t traceLen[2]; static int traceCur = 0;
void traceSwap() { traceCur ^= 1; traceLen[traceCur] = 0; }
void traceDumpDiff() {
  size_t n = traceLen[0] < traceLen[1] ? traceLen[0] : traceLen[1];
  for (size_t i = 0; i < n; ++i) { TraceEv& x = traceBuf[traceCur ^ 1][i]; TraceEv& y = traceBuf[traceCur][i];
    if (strcmp(x.kind, y.kind) || x.cur != y.cur || x.a != y.a || x.b != y.b || x.c != y.c || x.step != y.step) {
      for (size_t k = i > 6 ? i - 6 : 0; k <= i; ++k) { TraceEv& p = traceBuf[traceCur ^ 1][k]; TraceEv& q = traceBuf[traceCur][k]; printf("  #%zu  first: %llu t%d %s %lld %lld %lld   |  second: %llu t%d %s %lld %lld %lld\n", k, (unsigned long long)p.step, p.cur, p.kind, (long long)p.a, (long long)p.b, (long long)p.c, (unsigned long long)q.step, q.cur, q.kind, (long long)q.a, (long long)q.b, (long long)q.c); }
      return; } }
  printf("  traces equal for %zu events (lengths %zu / %zu)\n", n, traceLen[traceCur ^ 1], traceLen[traceCur]);
}
void traceNote(const char* kind, int64_t a, int64_t b, int64_t c) { if (g.in_run && traceLen[traceCur] < (1 << 15)) { TraceEv& e = traceBuf[traceCur][traceLen[traceCur]++]; e.kind = kind; e.cur = g.cur; e.step = g.steps; e.a = a; e.b = b; e.c = c; } }
void logEvent(const char* kind, int64_t a, int64_t b, int64_t c) {
  if (!g.in_run) return;
  if (traceLen[traceCur] < (1 << 15)) { TraceEv& e = traceBuf[traceCur][traceLen[traceCur]++]; e.kind = kind; e.cur = g.cur; e.step = g.steps; e.a = a; e.b = b; e.c = c; }
  hmix(shash(kind)); hmix((uint64_t)g.cur); hmix((uint64_t)a); hmix((uint64_t)b); hmix((uint64_t)c);
  logText(kind, a, b, c);
}
static void logText(const char* kind, int64_t a, int64_t b, int64_t c) {   // never touches the hash
  if (g.cfg.keep_log && g.log) {
    char buf[200];
    snprintf(buf, sizeof buf, "%llu t%d %s %lld %lld %lld", (unsigned long long)g.steps, g.cur, kind, (long long)a, (long long)b, (long long)c);
    g_host_depth_export++;
    g.log->push_back(buf);
    if (g.log->size() > g.cfg.log_keep) g.log->pop_front();
    g_host_depth_export--;
  }
}
void fault(const char* name) { if (!g.in_run) return; g_host_depth_export++; g.res->faults[name]++; g.res->nontrivial = true; g_host_depth_export--; }
void probe(const char* name) { if (!g.in_run) return; g_host_depth_export++; g.res->probes[name]++; g_host_depth_export--; }
void markNontrivial() { if (g.in_run) g.res->nontrivial = true; }

// ------------------------------------------------------------------ basic queries
bool inRun() { return g.in_run; }
bool inTask() { return g.in_run && g.cur != 0; }
int self() { return g.cur; }
uint64_t stepNo() { return g.steps; }
// Time dilation for spinning tasks: a task that keeps executing without ever blocking (a busy-wait) is charged more and more
// simulated time per step: steps number i of an uninterrupted run cost 50 ns x 2^k for i in [q*2^k, q*2^(k+1)) (q = fairness
// quantum, k <= 13, i.e. at most ~1 s per quantum).  A thread may run arbitrarily slowly, so this is a legal schedule; it keeps
// "busy-wait until the next timer" affordable (liveness oracles are stated in steps) and never makes anything happen early.
// The extra time is a pure function of the run length, evaluated lazily, so it does not depend on when the scheduler looks.
static int64_t dilationOf(uint64_t run) {
  uint64_t q = (uint64_t)g.cfg.fair_quantum; if (q == 0 || run < 2 * q) return 0;
  int64_t d = 0;
  for (int k = 1; k <= 13; ++k) { uint64_t lo = q << k, hi = (k == 13) ? ~0ULL : (q << (k + 1)); if (run <= lo) break; uint64_t n = (run < hi ? run : hi) - lo; d += (int64_t)n * 50 * (((int64_t)1 << k) - 1); if (d >= g.cfg.dilation_cap_ns) return g.cfg.dilation_cap_ns; }
  // The total extra time of one uninterrupted run is capped: a task that never blocks because time-driven work is always due (an event loop
  // whose timers fell behind) must be able to catch up - uncapped, every step would make more work due than it does (seen: 1 ms timers, C14).
  return d < g.cfg.dilation_cap_ns ? d : g.cfg.dilation_cap_ns;
}
// Sleeper boost: a task that has been blocked with a deadline for more than sleeper_patience steps of the other tasks' execution is
// evidently waiting for time while the rest of the system keeps computing (busy-waits that hand a lock back and forth never build up
// the per-task dilation above).  The clock is then advanced to its deadline at once - the other tasks were "slow", a legal schedule;
// nothing happens early.  The value is a function of the execution only (folding it into time_base here or later gives the same reads).
int64_t nowNs() {
  int64_t t = g.time_base + (int64_t)g.steps * 50 + g.dilation_closed;
  if (g.cur) { Task& c = g.t[g.cur]; t += dilationOf(c.yields - c.blocked_at); }
  if (g.cfg.sleeper_patience > 0) {
    /* ... to the EARLIEST pending deadline (the next event), as when every task is blocked: jumping to the deadline of the impatient sleeper itself
       could skip minutes (an idle event loop waits 300 s) and bury 1 ms timers under catch-up work - seen in the soak as C14 false alarms */
    int64_t target = -1; bool impatient = false;
    for (int i = 1; i <= g.ntasks; ++i) { Task& b = g.t[i]; if (b.state == 2 && b.deadline > t) { if (g.steps - b.blocked_step > (uint64_t)g.cfg.sleeper_patience) impatient = true; if (target < 0 || b.deadline < target) target = b.deadline; } }
    if (impatient && target > t) { g.time_base += target - t; t = target; }
  }
  return t;
}
int64_t realtimeNs() { return nowNs() + g.real_off; }
void chargeCall() { g.time_base += 1000; }
bool inTail() { return g.tail; }
static void enterTail();
static void drawNext(struct Task& t);
void requestTail();
int numTasks() { return g.ntasks; }
const char* taskName(int id) { return g.t[id].name; }
bool isBlocked(int id) { return id >= 1 && id <= g.ntasks && g.t[id].state == 2; }
bool taskFinished(int id) { return g.t[id].state == 3 || g.t[id].state == 0; }
const char* blockedWhat(int id) { return g.t[id].what ? g.t[id].what : ""; }
const void* blockedObj(int id) { return g.t[id].obj; }
int64_t blockedDeadline(int id) { return (id >= 1 && id <= g.ntasks && g.t[id].state == 2) ? g.t[id].deadline : -1; }
void setTaskNote(const char* n) { if (g.cur) { strncpy(g.t[g.cur].note, n, 63); g.t[g.cur].note[63] = 0; } }
const char* taskNote(int id) { return g.t[id].note; }
bool failed() { return g.res && g.res->violated; }
uint64_t currentSeed() { return g.spec ? g.spec->seed : 0; }
uint32_t decisionCount(int task, int kind) { return (task >= 0 && task <= MAXT && kind >= 0 && kind < K_NKINDS) ? g.t[task].cnt[kind] : 0; }

void noPreemptEnter() { if (g.cur) g.t[g.cur].nopreempt++; }
void noPreemptLeave() { if (g.cur) g.t[g.cur].nopreempt--; }
NoPreempt::NoPreempt() { if (g.cur) g.t[g.cur].nopreempt++; }
NoPreempt::~NoPreempt() { if (g.cur) g.t[g.cur].nopreempt--; }
Host::Host() { g_host_depth_export++; if (g.cur) g.t[g.cur].nopreempt++; }
Host::~Host() { g_host_depth_export--; if (g.cur) g.t[g.cur].nopreempt--; }

// ------------------------------------------------------------------ failure
static void switchTo(int next);
static void vfail(bool hard, const char* cls, const char* fmt, va_list ap) {
  g_host_depth_export++;
  if (g.res && !g.res->violated) {
    char buf[1024]; vsnprintf(buf, sizeof buf, fmt, ap);
    g.res->violated = true; g.res->cls = cls; g.res->detail = buf;
    logEvent("FAIL", (int64_t)shash(cls));
  }
  g_host_depth_export--;
  if (hard && g.in_run && g.cur != 0) { g.ending = true; switchTo(0); }
}
void fail(const char* cls, const char* fmt, ...) { va_list ap; va_start(ap, fmt); vfail(true, cls, fmt, ap); va_end(ap); }
void failSoft(const char* cls, const char* fmt, ...) { va_list ap; va_start(ap, fmt); vfail(false, cls, fmt, ap); va_end(ap); }
void stubError(const char* fmt, ...) {
  va_list ap; va_start(ap, fmt); fprintf(stderr, "SIMRT STUB ERROR: "); vfprintf(stderr, fmt, ap); fprintf(stderr, "\n"); va_end(ap);
  fflush(stderr); _exit(2);
}

// ------------------------------------------------------------------ choose
static int chooseMasked(int kind, int n, const unsigned char* allowed);
int choose(int kind, int n) { return chooseMasked(kind, n, 0); }
// allowed (search mode only; may be null): restricts the draw to the marked indices; the recorded value is an ordinary index, so replay needs no mask
static int chooseMasked(int kind, int n, const unsigned char* allowed) {
  if (!g.in_run) return 0;
  Task& t = g.t[g.cur];
  uint32_t nth = t.cnt[kind]++;
  if (n <= 1 || g.tail) return 0;
  int v = 0;
  if (g.spec->replay) {
    uint64_t key = ((uint64_t)g.cur << 48) | ((uint64_t)kind << 40) | nth;
    auto it = g.rdec->find(key);
    if (it != g.rdec->end()) v = it->second % n;
  } else {
    double r = g.cfg.rate[kind];
    if (r <= 0) return 0;
    if (r >= 1.0) { if (allowed) { int idx[MAXT + 1], m = 0; for (int i = 0; i < n && i <= MAXT; ++i) if (allowed[i]) idx[m++] = i; v = m ? idx[drnd() % (uint64_t)m] : (int)(drnd() % (uint64_t)n); } else v = (int)(drnd() % (uint64_t)n); }
    else if ((drnd() >> 11) * (1.0 / 9007199254740992.0) < r) v = 1 + (int)(drnd() % (uint64_t)(n - 1));
  }
  if (v) {
    g_host_depth_export++;
    g.res->decisions.push_back(Decision{g.cur, kind, (int)nth, v});
    g_host_depth_export--;
    hmix(0xC0 + kind); hmix(v);
    if (traceLen[traceCur] < (1 << 15)) { TraceEv& e = traceBuf[traceCur][traceLen[traceCur]++]; e.kind = "choose"; e.cur = g.cur; e.step = g.steps; e.a = kind; e.b = v; e.c = nth; }
    if (kind != K_BLOCKNEXT) g.res->nontrivial = true;
  }
  return v;
}

// ------------------------------------------------------------------ scheduling
static void mapStacks() {
  if (g.stacks_mapped) return;
  void* p = mmap(STACK_BASE, STACK_SIZE * (MAXT + 1), PROT_READ | PROT_WRITE, MAP_PRIVATE | MAP_ANONYMOUS | MAP_FIXED_NOREPLACE | MAP_NORESERVE, -1, 0);
  if (p != STACK_BASE) stubError("cannot map fiber stacks at fixed address");
  for (int i = 0; i <= MAXT; ++i) mprotect(STACK_BASE + i * STACK_SIZE, 4096, PROT_NONE);
  g.stacks_mapped = true;
}
bool isOwnStackAddr(const void* p) { const char* lo = STACK_BASE + (size_t)g.cur * STACK_SIZE; return (const char*)p >= lo && (const char*)p < lo + STACK_SIZE; }   /* the running task's own stack: thread-private.  Another task's stack is shared memory like any other (a pointer to a local was handed over). */
bool isStackAddr(const void* p) { return (const char*)p >= STACK_BASE && (const char*)p < STACK_BASE + STACK_SIZE * (MAXT + 1); }

static void drawNext(struct Task& t) {
  // next_preempt: replay mode only (from the list). next_event: when the slow path must run (fairness, tail quantum, budget).
  t.next_preempt = ~0ULL;
  if (g.tail) { t.next_event = t.yields + 200; return; }
  if (g.spec->replay) {
    std::vector<Preemption>* v = g.rpre[&t - g.t];
    if (v) { while (t.replay_idx < v->size() && (*v)[t.replay_idx].yield <= t.yields) t.replay_idx++; if (t.replay_idx < v->size()) t.next_preempt = (*v)[t.replay_idx].yield; }
  }
  uint64_t fair = t.switched_in_at + (uint64_t)g.cfg.fair_quantum;
  if (fair <= t.yields) fair = t.yields + 1;
  t.next_event = fair;
}

static void taskTrampoline();

int spawn(TaskFn fn, void* arg, const char* name) {
  mapStacks();
  int id = 0;
  for (int i = 1; i <= MAXT; ++i) if (g.t[i].state == 0) { id = i; break; }
  if (!id) stubError("too many tasks");
  Task& t = g.t[id];
  std::vector<int>* j = t.joiners;
  // a re-used slot keeps its yield and decision counters running, so that (task, counter) keys stay unique within a run
  uint64_t keepYields = t.yields; uint32_t keepCnt[K_NKINDS]; memcpy(keepCnt, t.cnt, sizeof keepCnt);
  memset(&t, 0, sizeof t);
  t.yields = keepYields; t.blocked_at = keepYields; t.dil_out = 0; memcpy(t.cnt, keepCnt, sizeof keepCnt);
  t.joiners = j; if (t.joiners) t.joiners->clear();
  t.state = 1; t.fn = fn; t.arg = arg; t.name = name; t.deadline = -1;
  char* top = STACK_BASE + (id + 1) * STACK_SIZE;
  memset(top - 32768, 0, 32768);
  uint64_t* sp = (uint64_t*)top;
  *--sp = 0;                               // alignment / fake return address
  *--sp = (uint64_t)(void*)&taskTrampoline;
  for (int i = 0; i < 6; ++i) *--sp = 0;
  t.sp = sp;
  t.next_preempt = ~0ULL; t.next_event = 0; // computed at first switch-in
  if (id > g.ntasks) g.ntasks = id;
  logEvent("spawn", id);
  return id;
}

static void expireDeadlines() {
  int64_t now = nowNs();
  for (int i = 1; i <= g.ntasks; ++i) { Task& t = g.t[i]; if (t.state == 2 && t.deadline >= 0 && t.deadline <= now) { t.state = 1; t.timed_out = true; logEvent("timeout", i); } }
}

static void switchTo(int next) {
  int prev = g.cur;
  if (prev == next) return;
  if (prev) { g.t[prev].saved_errno = errno; Task& p = g.t[prev]; int64_t d = dilationOf(p.yields - p.blocked_at); g.dilation_closed += d - p.dil_out; p.dil_out = d; }
  if (next) { Task& n = g.t[next]; g.dilation_closed -= n.dil_out; n.dil_out = 0; }
  g.t[prev].host_depth = g_host_depth_export; g_host_depth_export = g.t[next].host_depth;
  g.switches++;
  hmix(0x5157); hmix(prev); hmix(next); hmix(g.steps);
  if (traceLen[traceCur] < (1 << 15)) { TraceEv& e = traceBuf[traceCur][traceLen[traceCur]++]; e.kind = "switch"; e.cur = prev; e.step = g.steps; e.a = next; e.b = 0; e.c = 0; }
  logText("switch", prev, next, prev ? (int64_t)g.t[prev].yields : 0);
  g.cur = next;
  void** save = prev ? &g.t[prev].sp : &g.host_sp;
  void* load = next ? g.t[next].sp : g.host_sp;
  if (next) {
    Task& t = g.t[next]; t.switched_in_at = t.yields;
    drawNext(t);
  }
  sim_switch(save, load);
  // resumed
  if (g.cur) errno = g.t[g.cur].saved_errno;
}

// pick the next task when the current one cannot continue. returns 0 if none (=> host)
static int pickNext() {
  for (;;) {
    expireDeadlines();
    int ids[MAXT], n = 0;
    for (int i = 1; i <= g.ntasks; ++i) if (g.t[i].state == 1) ids[n++] = i;
    if (n) {
      if (g.tail) { for (int k = 0; k < n; ++k) if (ids[k] > g.rr_last) { g.rr_last = ids[k]; return ids[k]; } g.rr_last = ids[0]; return ids[0]; }
      unsigned char ok[MAXT + 1]; int nok = 0; for (int k = 0; k < n; ++k) { ok[k] = g.frozen_until[ids[k]] <= g.steps; nok += ok[k]; }
      int k = chooseMasked(K_BLOCKNEXT, n, (!g.spec->replay && nok && nok < n) ? ok : 0);
      return ids[k];
    }
    int64_t dl = -1;
    for (int i = 1; i <= g.ntasks; ++i) if (g.t[i].state == 2 && g.t[i].deadline >= 0 && (dl < 0 || g.t[i].deadline < dl)) dl = g.t[i].deadline;
    if (dl < 0) return 0;
    int64_t now = nowNs();
    if (dl > now) { g.time_base += dl - now; logEvent("timejump", dl); }
  }
}

static void enterTail() {
  if (g.tail) return;
  g.tail = true;
  uint64_t b = g.steps * (uint64_t)g.cfg.tail_factor;
  if (b < g.cfg.tail_budget_min) b = g.cfg.tail_budget_min;
  g.tail_limit = g.steps + b;
  logEvent("tail");
}

void requestTail() { if (!g.in_run || g.tail) return; enterTail(); if (g.cur) drawNext(g.t[g.cur]); }

// called when cur cannot continue (blocked or finished)
static void scheduleAway() {
  if (g.tail_requested && !g.tail) enterTail();
  /* budgets are also enforced here: a run whose tasks all block before their next slow-path check would otherwise never end */
  if (!g.tail && g.steps >= g.cfg.step_budget) { g.budget_exhausted = true; enterTail(); }
  if (g.tail && g.steps >= g.tail_limit) { g.ending = true; g.res->budget_exhausted = true; switchTo(0); return; }
  int next = pickNext();
  if (!next) { g.quiesced = true; switchTo(0); return; }
  switchTo(next);
}

static void slowYield(bool pre) {
  Task& t = g.t[g.cur];
  if (g.tail_requested && !g.tail) enterTail();
  if (!g.tail && g.steps >= g.cfg.step_budget) { g.budget_exhausted = true; enterTail(); }
  if (g.tail && g.steps >= g.tail_limit) { g.ending = true; g.res->budget_exhausted = true; switchTo(0); return; }
  bool recorded = pre && !g.tail;
  int target = 0;
  if (recorded && g.spec->replay) { std::vector<Preemption>* v = g.rpre[g.cur]; if (v && t.replay_idx < v->size()) target = (*v)[t.replay_idx].target; }
  bool want = recorded || g.tail || (t.yields - t.switched_in_at >= (uint64_t)g.cfg.fair_quantum);
  if (want) {
    expireDeadlines();
    int ids[MAXT], n = 0;
    for (int i = 1; i <= g.ntasks; ++i) if (g.t[i].state == 1 && i != g.cur) ids[n++] = i;
    if (n) {
      int next;
      if (!recorded) { next = ids[0]; for (int k = 0; k < n; ++k) if (ids[k] > g.cur) { next = ids[k]; break; } }   // round robin
      else if (g.spec->replay) { next = ids[0]; for (int k = 0; k < n; ++k) if (ids[k] == target) next = target; }
      else {
        int cand[MAXT], m = 0; for (int k = 0; k < n; ++k) if (g.frozen_until[ids[k]] <= g.steps) cand[m++] = ids[k];
        next = m ? cand[drnd() % (uint64_t)m] : ids[drnd() % (uint64_t)n];
        /* long-lived suspension: with the configured probability the pre-empted task stays away for 2^5..2^12 steps, so that other tasks can complete whole operations meanwhile */
        if (g.cfg.freeze_pct > 0 && (int)(drnd() % 100) < g.cfg.freeze_pct) g.frozen_until[g.cur] = g.steps + (32ULL << (drnd() % 8)) + drnd() % 32;
      }
      if (recorded) {
        g_host_depth_export++;
        g.res->preemptions.push_back(Preemption{g.cur, t.yields, next});
        g_host_depth_export--;
        g.res->nontrivial = true;
      }
      switchTo(next);   // drawNext runs when we are switched back in
      return;
    }
    if (t.yields - t.switched_in_at >= (uint64_t)g.cfg.fair_quantum) t.switched_in_at = t.yields;   // fairness clock restarts only when fairness was due (a random pre-emption that found nobody to run leaves no trace: replay cannot see it)
  }
  drawNext(t);
}

static inline void yieldCommon(bool sync) {
  if (!g.cur) return;
  Task& t = g.t[g.cur];
  if (t.nopreempt) return;
  g.steps++; t.yields++;
  bool pre = false;
  if (!g.tail) {
    if (g.spec->replay) pre = (t.yields == t.next_preempt);
    else { int k = sync ? g.cfg.sync_switch_log2 : g.cfg.mem_switch_log2; if (k < 64 && (drnd() & ((1ULL << k) - 1)) == 0) pre = true; }
  }
  if (pre || t.yields >= t.next_event || (!g.tail && g.steps >= g.cfg.step_budget)) slowYield(pre);
}
uint64_t switchCount() { return g.switches; }
void yieldSync() { yieldCommon(true); }
void yieldMem() { yieldCommon(false); }

void forceYield() {
  if (!g.cur) return;
  Task& t = g.t[g.cur];
  g.steps++; t.yields++;
  expireDeadlines();
  int ids[MAXT], n = 0;
  for (int i = 1; i <= g.ntasks; ++i) if (g.t[i].state == 1 && i != g.cur) ids[n++] = i;
  if (!n) return;
  int next;
  if (g.tail) { next = ids[0]; for (int k = 0; k < n; ++k) if (ids[k] > g.cur) { next = ids[k]; break; } }
  else { unsigned char ok[MAXT + 1]; int nok = 0; for (int k = 0; k < n; ++k) { ok[k] = g.frozen_until[ids[k]] <= g.steps; nok += ok[k]; } next = ids[chooseMasked(K_BLOCKNEXT, n, (!g.spec->replay && nok && nok < n) ? ok : 0)]; }
  switchTo(next);
}

bool blockOn(const char* what, const void* obj, int64_t deadline) {
  if (!g.cur) stubError("blockOn(%s) from host context", what);
  Task& t = g.t[g.cur];
  if (t.nopreempt) stubError("blockOn(%s) inside NoPreempt", what);
  t.state = 2; t.what = what; t.obj = obj; t.deadline = deadline; t.timed_out = false;
  g.dilation_closed += dilationOf(t.yields - t.blocked_at) - t.dil_out; t.dil_out = 0;
  g.steps++; t.yields++; t.blocked_at = t.yields; t.blocked_step = g.steps;
  logText(what, 0, deadline, 0);
  scheduleAway();
  // resumed
  Task& u = g.t[g.cur];
  bool to = u.timed_out; u.timed_out = false; u.what = 0; u.obj = 0; u.deadline = -1;
  return to;
}
void wake(int id) { Task& t = g.t[id]; if (t.state == 2) { t.state = 1; t.timed_out = false; logText("wake", id, 0, 0); } }

void sleepNs(int64_t ns) { if (ns < 0) ns = 0; blockOn("sleep", 0, nowNs() + ns); }

void joinTask(int id) {
  if (id < 1 || id > MAXT) stubError("join of bad task %d", id);
  while (g.t[id].state != 3 && g.t[id].state != 0) {
    g_host_depth_export++;
    if (!g.t[id].joiners) g.t[id].joiners = new std::vector<int>();
    g.t[id].joiners->push_back(g.cur);
    g_host_depth_export--;
    blockOn("join", (void*)(intptr_t)id, -1);
  }
}

static void taskTrampoline() {
  int id = g.cur;
  Task& t = g.t[id];
  errno = 0;      /* a new thread starts with a clean errno (the restore in switchTo only runs for tasks that have been switched out before) */
  t.fn(t.arg);
  t.state = 3;
  logEvent("finish", id);
  if (t.joiners) { for (int j : *t.joiners) wake(j); t.joiners->clear(); }
  g.steps++;
  scheduleAway();
  stubError("finished task resumed");
}

void taskReap(int id) { g.t[id].state = 0; }

// ------------------------------------------------------------------ run
Result run(const RunSpec& spec, const Config& cfg, const Hooks& hooks) {
  Result res;
  if (g.in_run) stubError("nested run");
  mapStacks();
  for (int i = 0; i <= MAXT; ++i) { std::vector<int>* j = g.t[i].joiners; memset(&g.t[i], 0, sizeof(Task)); g.t[i].joiners = j; if (j) j->clear(); }
  g.ntasks = 0; g.steps = 0; g.switches = 0; g.time_base = 1000000000LL; g.real_off = 1700000000LL * 1000000000LL + cfg.real_phase_ns;
  g.dilation_closed = 0; g.tail = false; g.tail_requested = false; g.tail_limit = 0; g.budget_exhausted = false; g.quiesced = false; g.ending = false; g.rr_last = 0; memset(g.frozen_until, 0, sizeof g.frozen_until);
  seedx(g.s, spec.seed ^ 0xD1CEULL); seedx(g.p, spec.seed ^ 0x9A11ULL);
  g.spec = &spec; g.cfg = cfg; g.hooks = hooks;
  { static const char* lk = getenv("SIM_LOGKEEP"); if (lk) g.cfg.log_keep = (size_t)atol(lk); } g.res = &res; g.hash = 0xcbf29ce484222325ULL;
  std::deque<std::string> log; g.log = &log;
  std::unordered_map<uint64_t,int> rdec; g.rdec = &rdec;
  std::vector<Preemption> rpre[MAXT + 1];
  for (int i = 0; i <= MAXT; ++i) g.rpre[i] = 0;
  if (spec.replay) {
    for (const Decision& d : spec.decisions) rdec[((uint64_t)d.task << 48) | ((uint64_t)d.kind << 40) | (uint32_t)d.nth] = d.value;
    for (const Preemption& p : spec.preemptions) if (p.task >= 1 && p.task <= MAXT) rpre[p.task].push_back(p);
    for (int i = 1; i <= MAXT; ++i) { std::sort(rpre[i].begin(), rpre[i].end(), [](const Preemption& a, const Preemption& b) { return a.yield < b.yield; }); g.rpre[i] = &rpre[i]; }
  }
  g_host_depth_export = 0;
  restoreLibraryStatics();
  for (auto fn : resetHooks()) fn();
  traceSwap();
  g.in_run = true; g.cur = 0;
  int mainId = spawn(hooks.main_fn, hooks.main_arg, "main");
  switchTo(mainId);
  // back on host
  g.cur = 0; g_host_depth_export = 0;
  for (auto fn : endHooks()) fn();
  bool allDone = true;
  for (int i = 1; i <= g.ntasks; ++i) if (g.t[i].state == 1 || g.t[i].state == 2) allDone = false;
  if (!res.violated && g.quiesced && !allDone) {
    bool ok = hooks.quiescence ? hooks.quiescence() : false;
    if (!ok && !res.violated) {
      res.deadlock = true;
      std::string d;
      for (int i = 1; i <= g.ntasks; ++i) if (g.t[i].state == 2) { char b[160]; snprintf(b, sizeof b, "%s#%d[%s]:%s ", g.t[i].name, i, g.t[i].note, blockedWhat(i)); d += b; }
      failSoft("deadlock", "no runnable task, no pending timer: %s", d.c_str());
    }
  }
  if (hooks.finalize && !res.violated) hooks.finalize();
  res.hash = g.hash; res.steps = g.steps; res.switches = g.switches; res.simtime_ns = nowNs() - 1000000000LL;
  if (g.budget_exhausted) res.probes["main_budget_exhausted"]++;
  if (cfg.keep_log) res.tail.assign(log.begin(), log.end());
  g.in_run = false; g.res = 0; g.log = 0; g.rdec = 0; g.spec = 0;
  for (int i = 0; i <= MAXT; ++i) g.rpre[i] = 0;
  return res;
}

} // namespace sim
