// simrt: private implementation of the ThreadSanitizer run-time interface.
// libnstd and the harnesses are compiled with -fsanitize=thread but linked against THIS file instead of libtsan:
// every instrumented memory access / atomic becomes (a) a potential pre-emption point and (b) an arena shadow check.
// Compiled WITHOUT instrumentation.
#include "sim.hpp"
#include "internal.hpp"
#include <stdint.h>

using namespace sim;

#define PC __builtin_return_address(0)
#include <stdio.h>
#include <stdlib.h>
#include <string.h>
static int trace = -1;
static inline void acc(const void* p, size_t n, bool w, void* pc, bool store = false) {
  if (!inTask()) return;
  if (isOwnStackAddr(p)) return;
  static uint64_t traceSeed = 0; static unsigned long lo = 0, hi = ~0UL;
  if (trace < 0) { trace = getenv("SIM_TRACE") ? 1 : 0; if (getenv("SIM_TRACE_SEED")) traceSeed = strtoull(getenv("SIM_TRACE_SEED"), 0, 10); if (getenv("SIM_TRACE_RANGE")) sscanf(getenv("SIM_TRACE_RANGE"), "%lu-%lu", &lo, &hi); }
  if (trace && (!traceSeed || traceSeed == currentSeed()) && stepNo() >= lo && stepNo() <= hi) fprintf(stderr, "T step=%llu task=%d %s%zu addr=%p pc=%p\n", (unsigned long long)stepNo(), self(), w ? "w" : "r", n, p, pc);         // own-stack traffic is thread-private: neither checked nor a yield point
  static int ty = -1; if (ty < 0) ty = getenv("SIM_TRACEYIELDS") ? 1 : 0;
  if (ty) traceNote(w ? "yw" : "yr", (int64_t)(uintptr_t)pc, memIsArena(p) ? (int64_t)(uintptr_t)p : 0, (int64_t)n);
  memAccess(p, n, w, pc);
  if (!store) { yieldMem(); return; }
  /* A plain store of n bytes follows this call.  If the task is pre-empted here and other tasks change those bytes meanwhile, the bytes are put back before the
     store proceeds.  For an ordinary store that is invisible (it overwrites all n bytes).  For a store to a bit-field the compiler emits ONE such call and then
     load - modify - store of the whole storage unit: putting the old bytes back is exactly the lost update the hardware produces when two threads modify
     neighbouring bit-fields without a common lock. */
  unsigned char snap[16]; memcpy(snap, p, n); uint64_t s0 = switchCount();
  yieldMem();
  if (switchCount() != s0 && memcmp(p, snap, n) != 0) { memcpy(const_cast<void*>(p), snap, n); probe("store_resumed_over_bytes_changed_meanwhile"); }
}
static inline void atom(const void* p, size_t n, void* pc) {
  if (!inTask()) return;
  static int ty = -1; if (ty < 0) ty = getenv("SIM_TRACEYIELDS") ? 1 : 0;
  if (ty) traceNote("ya", (int64_t)(uintptr_t)pc, memIsArena(p) ? (int64_t)(uintptr_t)p : 0, (int64_t)n);
  memAccess(p, n, true, pc);
  yieldSync();
}

extern "C" {
void __tsan_init() {}
void __tsan_func_entry(void*) {}
void __tsan_func_exit() {}
void __tsan_read1(void* p) { acc(p, 1, false, PC); }
void __tsan_read2(void* p) { acc(p, 2, false, PC); }
void __tsan_read4(void* p) { acc(p, 4, false, PC); }
void __tsan_read8(void* p) { acc(p, 8, false, PC); }
void __tsan_read16(void* p) { acc(p, 16, false, PC); }
void __tsan_write1(void* p) { acc(p, 1, true, PC, true); }
void __tsan_write2(void* p) { acc(p, 2, true, PC, true); }
void __tsan_write4(void* p) { acc(p, 4, true, PC, true); }
void __tsan_write8(void* p) { acc(p, 8, true, PC, true); }
void __tsan_write16(void* p) { acc(p, 16, true, PC, true); }
void __tsan_unaligned_read2(void* p) { acc(p, 2, false, PC); }
void __tsan_unaligned_read4(void* p) { acc(p, 4, false, PC); }
void __tsan_unaligned_read8(void* p) { acc(p, 8, false, PC); }
void __tsan_unaligned_read16(void* p) { acc(p, 16, false, PC); }
void __tsan_unaligned_write2(void* p) { acc(p, 2, true, PC, true); }
void __tsan_unaligned_write4(void* p) { acc(p, 4, true, PC, true); }
void __tsan_unaligned_write8(void* p) { acc(p, 8, true, PC, true); }
void __tsan_unaligned_write16(void* p) { acc(p, 16, true, PC, true); }
void __tsan_vptr_update(void** p, void*) { acc(p, 8, true, PC); }
void __tsan_vptr_read(void** p) { acc(p, 8, false, PC); }
void __tsan_read_range(void* p, unsigned long n) { if (n) acc(p, n, false, PC); }
void __tsan_write_range(void* p, unsigned long n) { if (n) acc(p, n, true, PC); }
void __tsan_atomic_thread_fence(int) { if (inTask()) yieldSync(); }
void __tsan_atomic_signal_fence(int) {}

#define ATOMICS(T, N) \
  T __tsan_atomic##N##_load(const volatile T* p, int) { atom((const void*)p, sizeof(T), PC); return *p; } \
  void __tsan_atomic##N##_store(volatile T* p, T v, int) { atom((const void*)p, sizeof(T), PC); *p = v; } \
  T __tsan_atomic##N##_exchange(volatile T* p, T v, int) { atom((const void*)p, sizeof(T), PC); T o = *p; *p = v; return o; } \
  T __tsan_atomic##N##_fetch_add(volatile T* p, T v, int) { atom((const void*)p, sizeof(T), PC); T o = *p; *p = o + v; return o; } \
  T __tsan_atomic##N##_fetch_sub(volatile T* p, T v, int) { atom((const void*)p, sizeof(T), PC); T o = *p; *p = o - v; return o; } \
  T __tsan_atomic##N##_fetch_and(volatile T* p, T v, int) { atom((const void*)p, sizeof(T), PC); T o = *p; *p = o & v; return o; } \
  T __tsan_atomic##N##_fetch_or(volatile T* p, T v, int) { atom((const void*)p, sizeof(T), PC); T o = *p; *p = o | v; return o; } \
  T __tsan_atomic##N##_fetch_xor(volatile T* p, T v, int) { atom((const void*)p, sizeof(T), PC); T o = *p; *p = o ^ v; return o; } \
  T __tsan_atomic##N##_fetch_nand(volatile T* p, T v, int) { atom((const void*)p, sizeof(T), PC); T o = *p; *p = ~(o & v); return o; } \
  int __tsan_atomic##N##_compare_exchange_strong(volatile T* p, T* e, T v, int, int) { atom((const void*)p, sizeof(T), PC); if (*p == *e) { *p = v; return 1; } *e = *p; return 0; } \
  int __tsan_atomic##N##_compare_exchange_weak(volatile T* p, T* e, T v, int, int) { atom((const void*)p, sizeof(T), PC); if (*p == *e) { *p = v; return 1; } *e = *p; return 0; } \
  T __tsan_atomic##N##_compare_exchange_val(volatile T* p, T e, T v, int, int) { atom((const void*)p, sizeof(T), PC); T o = *p; if (o == e) *p = v; return o; }
ATOMICS(uint8_t, 8)
ATOMICS(uint16_t, 16)
ATOMICS(uint32_t, 32)
ATOMICS(uint64_t, 64)
}
