// simfs: pass-through to the REAL kernel file system inside a private scratch directory, with injected error returns /
// short counts (K_FS decisions) and a deterministic readdir order.  Helpers below use real system calls, never faulted.
#pragma once
#include <string>
#include <vector>

namespace simfs {

void enable(bool on);                       // fault points and ordered readdir active for the current run
const std::string& scratch();               // absolute path of this process' scratch directory (created on first use, cwd is set to it)
void wipe();                                // remove everything inside the scratch directory
// canonical listing of a tree (relative paths, kinds, sizes, content hash, link targets), sorted; real syscalls, no faults
std::string snapshot(const std::string& root);
struct Entry { std::string path; char kind; std::string data; };   // kind: 'd' 'f' 'l'
std::vector<Entry> list(const std::string& root);
bool mkdirs(const std::string& path);
bool writeFile(const std::string& path, const std::string& data);
bool readFile(const std::string& path, std::string& data);
bool symlinkTo(const std::string& target, const std::string& path);
bool removeTree(const std::string& path);   // no symlink following
bool copyTree(const std::string& from, const std::string& to);
char kindOf(const std::string& path);       // 'd','f','l' (lstat) or 0
// plain POSIX wrappers for reference operations (never faulted)
int  rOpen(const char* path, int flags, int mode);
int  rClose(int fd);
long rWrite(int fd, const void* b, unsigned long n);
long rRead(int fd, void* b, unsigned long n);
long rSeek(int fd, long off, int whence);
int  rRename(const char* a, const char* b);
int  rUnlink(const char* a);
int  rRmdir(const char* a);

int  rStatIsDir(const char* a);             // 1 dir, 0 other/none (follows links)
int  rExists(const char* a);                // stat succeeds
bool lastCallWasFaulted(const char* name);     // the most recent file-system call of the run was hit by a fault and its name contains `name`
const std::string& faultedCalls();           // names of the calls hit by an injected fault in this run, space separated
std::vector<std::string> dirNames(const std::string& path);   // entries of a directory (following a link to it), sorted, without . and ..
bool sameFile(const char* a, const char* b); // both exist and are the same inode (following links)

} // namespace simfs
