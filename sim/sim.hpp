// simrt — deterministic simulation runtime for libnstd (see /verif/DESIGN.md §3).
// One OS thread; tasks are fibers; every scheduling / fault decision comes from one Chooser.
#pragma once
#include <stdint.h>
#include <stddef.h>
#include <string>
#include <vector>
#include <map>

namespace sim {

// ---------------------------------------------------------------- decision kinds
enum Kind {
  K_PREEMPT = 0,     // (recorded separately as pre-emptions)
  K_BLOCKNEXT,       // which runnable task continues when the current one blocks/finishes
  K_SPURIOUS,        // cond_wait returns without signal
  K_WAKEORDER,       // which waiter cond_signal wakes
  K_EINTR,           // sem_wait / epoll_wait / select interrupted
  K_SEND,            // outcome class of a send() on a simulated stream socket
  K_RECV,            // partial recv
  K_EPOLL,           // epoll subset/order
  K_CONN,            // connect outcome
  K_DNS,             // getaddrinfo outcome
  K_FS,              // file-system fault
  K_PIPE,            // pipe partial read/write
  K_CHILD,           // child timing
  K_PEER,            // peer behaviour
  K_HARNESS,         // harness-level on-line choice (e.g. C12 slot actions)
  K_HARNESS2,
  K_THREADFAIL,      // pthread_create fails (EAGAIN: no resources for another thread)
  K_NKINDS
};
const char* kindName(int k);

struct Decision { int task, kind, nth, value; };
struct Preemption { int task; uint64_t yield; int target; };
struct Op { int task; int code; int64_t a[4]; };

// Everything that determines a run besides the code.
struct RunSpec {
  uint64_t seed = 0;                       // per-run seed
  bool replay = false;                     // true: decisions/preemptions below are authoritative, no PRNG draws for them
  std::map<std::string, int64_t> knobs;    // configuration knobs (harness-defined)
  std::vector<Op> plan;                    // operation plan (harness-defined codes)
  std::vector<Decision> decisions;         // non-default decisions
  std::vector<Preemption> preemptions;     // pre-emptions
};

struct Result {
  bool violated = false;
  std::string cls;        // violation class = oracle name (+ stable entity description); used for shrinking and known-findings
  std::string detail;     // free text
  uint64_t hash = 0;      // event log hash
  uint64_t steps = 0;     // yield points executed
  uint64_t switches = 0;
  int64_t simtime_ns = 0;
  bool budget_exhausted = false; // step budget hit (run inconclusive unless a liveness oracle says otherwise)
  bool deadlock = false;
  bool nontrivial = false;       // at least one pre-emption at a non-blocking point or one fired fault
  std::vector<Decision> decisions;      // recorded
  std::vector<Preemption> preemptions;  // recorded
  std::map<std::string, uint64_t> faults;   // fired fault kinds (counts)
  std::map<std::string, uint64_t> probes;   // reach probes
  std::vector<std::string> tail;            // last events (text) when logging enabled
};

// ---------------------------------------------------------------- run control (host side)
struct Config {
  uint64_t step_budget = 2000000;     // main phase budget (yield points)
  uint64_t tail_budget_min = 100000;  // quiet tail budget = max(this, tail_factor * steps used)
  int tail_factor = 20;
  // scheduling policy (search mode)
  int64_t dilation_cap_ns = 0;             /* 0 = per-task dilation off (the default since the sleeper boost exists: it covers every case in which somebody waits for time, and it cannot mistake a long legitimate computation for a busy-wait) */ //   // most extra simulated time one uninterrupted (never blocking) run of a task can be charged (sim/core.cpp, time dilation)
  int64_t sleeper_patience = 40000;        // steps of other tasks' execution after which the clock is advanced to the deadline of a task that is still blocked with one (0 = never)
  int freeze_pct = 0;        // search mode: probability (percent) that a pre-empted task is kept away from the processor for 32..4096 further steps
  int mem_switch_log2 = 6;   // P(preempt at plain memory access) = 2^-k ; 0xff = never
  int sync_switch_log2 = 2;  // P(preempt at atomic / wrapped call)
  int fair_quantum = 3000;   // forced round-robin switch after this many consecutive yields of one task with others runnable
  double rate[K_NKINDS];     // P(non-default) for choose() per kind in search mode
  int64_t real_phase_ns = 0; // sub-second phase added to the simulated realtime clock (per-run knob)
  bool keep_log = false;     // keep textual log of events
  size_t log_keep = 200;     // number of trailing events kept
  Config();
};

typedef void (*TaskFn)(void*);

// Runs main_fn as task 1 inside the simulation and returns when every task has finished, or on violation / deadlock / budget.
// quiescence(): called (host context) when no task is runnable and no timer pending but tasks remain; return true if that is
// a legitimate final state (then the run ends without deadlock violation).
// finalize(): called in host context after the run for end-of-run oracles (may call fail()).
struct Hooks {
  TaskFn main_fn = nullptr; void* main_arg = nullptr;
  bool (*quiescence)() = nullptr;
  void (*finalize)() = nullptr;
  bool (*done)() = nullptr;       // completion predicate for quiet tail (optional)
};
Result run(const RunSpec& spec, const Config& cfg, const Hooks& hooks);

// ---------------------------------------------------------------- in-run API
bool inRun();
bool inTask();
int  self();                       // current task id (1-based), 0 on host
int  spawn(TaskFn fn, void* arg, const char* name = "task");  // new task (used by pthread_create wrapper and harness)
void joinTask(int id);             // block until task finished
bool taskFinished(int id);
void yieldSync();                  // yield point at sync granularity
void yieldMem();
void forceYield();                 // sched_yield semantics: let another runnable task run if any (choice)
void sleepNs(int64_t ns);          // block on simulated time
int64_t nowNs();                   // simulated monotonic ns
int64_t realtimeNs();              // simulated realtime ns
uint64_t stepNo();                 // global event sequence number
void chargeCall();                 // +1us
bool inTail();                     // quiet tail: no more faults
void requestTail();                // workload finished: enter quiet tail now

int  choose(int kind, int n);      // 0 = default; non-default recorded
uint64_t rnd();                    // plan-generation PRNG (host side and task side; NOT for decisions that must be shrinkable)
uint64_t rndBelow(uint64_t n);

void fail(const char* cls, const char* fmt, ...) __attribute__((format(printf,2,3)));   // record violation, end run
void failSoft(const char* cls, const char* fmt, ...) __attribute__((format(printf,2,3)));// record violation (first wins), continue
bool failed();
uint32_t decisionCount(int task, int kind);   // number of choose() calls of this kind made by the task so far (valid until the next run starts)
void stubError(const char* fmt, ...) __attribute__((format(printf,1,2)));               // machinery problem -> exit 2

void logEvent(const char* kind, int64_t a = 0, int64_t b = 0, int64_t c = 0);
void fault(const char* name);      // count a fired fault
void probe(const char* name);      // count a reach probe
void markNontrivial();

// generic blocking for stubs: block current task until woken by wake(id) or deadline (monotonic ns, <0 none). returns true if timed out
bool blockOn(const char* what, const void* obj, int64_t deadline_mono_ns);
void wake(int task);
bool isBlocked(int task);
const char* blockedWhat(int task);
const void* blockedObj(int task);
int64_t blockedDeadline(int task);   // deadline (monotonic ns) of a blocked task, -1 if it waits without one or is not blocked
int  numTasks();
const char* taskName(int task);
void setTaskNote(const char* note);   // harness annotation for diagnostics ("client1:join f0")
const char* taskNote(int task);

struct NoPreempt { NoPreempt(); ~NoPreempt(); };
// Host: allocations go to malloc (not the arena ledger) and no pre-emption; use around oracle bookkeeping.
struct Host { Host(); ~Host(); };

// memory ledger (mem.cpp)
struct MemStats { uint64_t allocs, frees, live_blocks, live_bytes; };
MemStats memStats();
void memCheckLeaks(const char* cls);      // fail(cls) if live blocks remain
bool memIsArena(const void* p);
bool memIsLive(const void* p, size_t n);
void memAccess(const void* p, size_t n, bool write, void* pc);
uint64_t memMark();                      // allocation counter mark
void memSetIgnoreBefore(uint64_t mark);  // leak check ignores blocks allocated before this mark

// registration of per-run reset hooks of stub modules
void addResetHook(void (*fn)());
void addEndHook(void (*fn)());     // called on the host right after a run ends (normally or abandoned)

} // namespace sim
