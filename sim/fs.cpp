// simfs implementation.  Compiled WITHOUT instrumentation.
#include "fs.hpp"
#include "sim.hpp"
#include "internal.hpp"
#include <sys/types.h>
#include <sys/stat.h>
#include <sys/sendfile.h>
#include <fcntl.h>
#include <unistd.h>
#include <dirent.h>
#include <errno.h>
#include <string.h>
#include <stdlib.h>
#include <stdio.h>
#include <stdarg.h>
#include <algorithm>
#include <set>

using namespace sim;

namespace simfs {

static bool enabled = false;
static std::string scratchDir;
static std::set<int> fileFds;           // descriptors opened through the faulting open()
struct SimDir { std::vector<struct dirent> ents; size_t pos; };
static std::set<SimDir*> dirs;
static uint64_t nfaults;
static std::string faultedNames;
static void resetFs() { enabled = false; nfaults = 0; faultedNames.clear(); for (int fd : fileFds) ::close(fd); fileFds.clear(); for (SimDir* d : dirs) delete d; dirs.clear(); }
static struct Reg { Reg() { addResetHook(resetFs); } } reg;
struct HostG { HostG() { g_host_depth_export++; } ~HostG() { g_host_depth_export--; } };

void enable(bool on) { enabled = on; }
static void cleanupAtExit() { if (!scratchDir.empty()) { if (chdir("/") == 0) removeTree(scratchDir); } }
const std::string& scratch() {
  if (scratchDir.empty()) {
    const char* t = getenv("VERIF_SCRATCH"); std::string base = (t && *t) ? t : (access("/dev/shm", W_OK) == 0 ? "/dev/shm" : ((getenv("TMPDIR") && *getenv("TMPDIR")) ? getenv("TMPDIR") : "/tmp"));
    char buf[512]; snprintf(buf, sizeof buf, "%s/nstd-verif-c19-%d-XXXXXX", base.c_str(), (int)getpid());
    if (!mkdtemp(buf)) stubError("cannot create scratch directory under %s", base.c_str());
    scratchDir = buf;
    if (chdir(buf) != 0) stubError("cannot chdir to scratch directory");
    atexit(cleanupAtExit);
  }
  return scratchDir;
}
char kindOf(const std::string& p) { struct stat st; if (lstat(p.c_str(), &st) != 0) return 0; return S_ISDIR(st.st_mode) ? 'd' : S_ISLNK(st.st_mode) ? 'l' : S_ISFIFO(st.st_mode) ? 'p' : 'f'; }   /* 'p': never opened by the helpers (opening a FIFO blocks) */
bool removeTree(const std::string& path) {
  char k = kindOf(path); if (!k) return true;
  if (k != 'd') return ::unlink(path.c_str()) == 0;
  DIR* d = opendir(path.c_str()); if (!d) return false;
  std::vector<std::string> names; while (struct dirent* e = readdir(d)) { if (strcmp(e->d_name, ".") && strcmp(e->d_name, "..")) names.push_back(e->d_name); } closedir(d);
  for (auto& n : names) if (!removeTree(path + "/" + n)) return false;
  return ::rmdir(path.c_str()) == 0;
}
void wipe() {
  scratch(); DIR* d = opendir("."); if (!d) return;
  std::vector<std::string> names; while (struct dirent* e = readdir(d)) { if (strcmp(e->d_name, ".") && strcmp(e->d_name, "..")) names.push_back(e->d_name); } closedir(d);
  for (auto& n : names) { chmod(n.c_str(), 0700); removeTree(n); }
}
bool mkdirs(const std::string& p) { for (size_t i = 1; i <= p.size(); ++i) if (i == p.size() || p[i] == '/') { std::string s = p.substr(0, i); if (::mkdir(s.c_str(), 0755) != 0 && errno != EEXIST) return false; } return true; }
bool writeFile(const std::string& p, const std::string& data) { int fd = ::open(p.c_str(), O_CREAT | O_TRUNC | O_WRONLY, 0644); if (fd < 0) return false; bool ok = ::write(fd, data.data(), data.size()) == (ssize_t)data.size(); ::close(fd); return ok; }
bool readFile(const std::string& p, std::string& data) { int fd = ::open(p.c_str(), O_RDONLY); if (fd < 0) return false; data.clear(); char b[4096]; ssize_t n; while ((n = ::read(fd, b, sizeof b)) > 0) data.append(b, n); ::close(fd); return n == 0; }
bool symlinkTo(const std::string& target, const std::string& p) { return ::symlink(target.c_str(), p.c_str()) == 0; }
static void listRec(const std::string& root, const std::string& rel, std::vector<Entry>& out) {
  std::string full = rel.empty() ? root : root + "/" + rel;
  char k = kindOf(full); if (!k) return;
  Entry e; e.path = rel.empty() ? "." : rel; e.kind = k;
  if (k == 'f') readFile(full, e.data);
  if (k == 'l') { char b[512]; ssize_t n = readlink(full.c_str(), b, sizeof b - 1); if (n > 0) e.data.assign(b, n); }
  out.push_back(e);
  if (k == 'd') {
    DIR* d = opendir(full.c_str()); if (!d) return;
    std::vector<std::string> names; while (struct dirent* de = readdir(d)) { if (strcmp(de->d_name, ".") && strcmp(de->d_name, "..")) names.push_back(de->d_name); } closedir(d);
    std::sort(names.begin(), names.end());
    for (auto& n : names) listRec(root, rel.empty() ? n : rel + "/" + n, out);
  }
}
std::vector<Entry> list(const std::string& root) { std::vector<Entry> v; listRec(root, "", v); return v; }
std::string snapshot(const std::string& root) {
  std::string s; for (auto& e : list(root)) { s += e.kind; s += ' '; s += e.path; if (e.kind != 'd') { s += " ["; s += std::to_string(e.data.size()); s += ":"; uint64_t h = 1469598103934665603ULL; for (unsigned char c : e.data) h = (h ^ c) * 0x100000001b3ULL; char b[24]; snprintf(b, sizeof b, "%016llx", (unsigned long long)h); s += e.kind == 'l' ? e.data : std::string(b); s += "]"; } s += '\n'; }
  return s;
}
bool copyTree(const std::string& from, const std::string& to) {
  removeTree(to);
  for (auto& e : list(from)) { std::string dst = e.path == "." ? to : to + "/" + e.path; if (e.kind == 'd') { if (!mkdirs(dst)) return false; } else if (e.kind == 'f') { if (!writeFile(dst, e.data)) return false; } else if (!symlinkTo(e.data, dst)) return false; }
  return true;
}
int rOpen(const char* p, int f, int m) { return ::open(p, f, m); }
int rClose(int fd) { return ::close(fd); }
long rWrite(int fd, const void* b, unsigned long n) { return ::write(fd, b, n); }
long rRead(int fd, void* b, unsigned long n) { return ::read(fd, b, n); }
long rSeek(int fd, long off, int wh) { return ::lseek(fd, off, wh); }
int rRename(const char* a, const char* b) { return ::rename(a, b); }
int rUnlink(const char* a) { return ::unlink(a); }
int rStatIsDir(const char* a) { struct stat st; return ::stat(a, &st) == 0 && S_ISDIR(st.st_mode); }
std::vector<std::string> dirNames(const std::string& p) { std::vector<std::string> v; DIR* d = opendir(p.c_str()); if (!d) return v; while (struct dirent* e = readdir(d)) { if (strcmp(e->d_name, ".") && strcmp(e->d_name, "..")) v.push_back(e->d_name); } closedir(d); std::sort(v.begin(), v.end()); return v; }
int rExists(const char* a) { struct stat st; return ::stat(a, &st) == 0; }
bool sameFile(const char* a, const char* b) { struct stat x, y; return ::stat(a, &x) == 0 && ::stat(b, &y) == 0 && x.st_dev == y.st_dev && x.st_ino == y.st_ino; }

// fault decision for one call site: returns 0 (none), 1 (error), 2 (short count where applicable, else error)
uint64_t faultCount() { return nfaults; }
size_t openDirCount() { return dirs.size(); }
size_t openFileCount() { return fileFds.size(); }
const std::string& faultedCalls() { return faultedNames; }
int rRmdir(const char* a) { return ::rmdir(a); }
static const char* lastCall = ""; static bool lastFaulted = false;
bool lastCallWasFaulted(const char* name) { return lastFaulted && strstr(lastCall, name) != 0; }
static int decide(const char* call) {
  if (!enabled || !inTask()) return 0;
  lastCall = call; lastFaulted = false;
  chargeCall(); yieldSync();
  int c = choose(K_FS, 3);
  if (c) { lastFaulted = true; nfaults++; faultedNames += call; faultedNames += ' '; char n[48]; snprintf(n, sizeof n, c == 2 ? "fs_short_or_alt:%s" : "fs_err:%s", call); fault(n); logEvent("fs_fault", c); }
  return c;
}
bool active() { return enabled && inTask(); }
bool isFileFd(int fd) { return fileFds.count(fd) != 0; }
ssize_t fsWrite(int fd, const void* b, size_t n) {
  HostG h; int c = decide("write");
  if (c == 1) { errno = ENOSPC; return -1; }
  if (c == 2 && n > 1) return ::write(fd, b, n / 2);
  if (c == 2) { errno = EIO; return -1; }
  return ::write(fd, b, n);
}
ssize_t fsRead(int fd, void* b, size_t n) {
  HostG h; int c = decide("read");
  if (c == 1) { errno = EIO; return -1; }
  if (c == 2 && n > 1) return ::read(fd, b, n / 2);
  if (c == 2) { errno = EIO; return -1; }
  return ::read(fd, b, n);
}
int fsClose(int fd) { HostG h; fileFds.erase(fd); return ::close(fd); }

} // namespace simfs

using namespace simfs;

extern "C" {
int __wrap_open(const char* path, int flags, ...) {
  va_list ap; va_start(ap, flags); int mode = va_arg(ap, int); va_end(ap);
  if (!active()) return open(path, flags, mode);
  HostG h; int c = decide("open");
  if (c) { errno = c == 1 ? EACCES : EMFILE; return -1; }
  int fd = open(path, flags, mode); if (fd >= 0) fileFds.insert(fd); return fd;
}
off_t __wrap_lseek(int fd, off_t off, int wh) { return lseek(fd, off, wh); }   // not a fault point: lseek on a regular file does not fail on Linux
off64_t __wrap_lseek64(int fd, off64_t off, int wh) { return lseek64(fd, off, wh); }
int __wrap_fsync(int fd) { if (!active() || !isFileFd(fd)) return fsync(fd); HostG h; if (decide("fsync")) { errno = EIO; return -1; } return fsync(fd); }
int __wrap_rename(const char* a, const char* b) { if (!active()) return rename(a, b); HostG h; int c = decide("rename"); if (c) { errno = c == 1 ? EACCES : EXDEV; return -1; } return rename(a, b); }
int __wrap_unlink(const char* a) { if (!active()) return unlink(a); HostG h; int c = decide("unlink"); if (c) { errno = c == 1 ? EACCES : EBUSY; return -1; } return unlink(a); }
int __wrap_symlink(const char* t, const char* p) { if (!active()) return symlink(t, p); HostG h; int c = decide("symlink"); if (c) { errno = c == 1 ? EACCES : ENOSPC; return -1; } return symlink(t, p); }
int __wrap_stat(const char* p, struct stat* st) { if (!active()) return stat(p, st); HostG h; if (decide("stat")) { errno = EACCES; return -1; } return stat(p, st); }
int __wrap_lstat(const char* p, struct stat* st) { if (!active()) return lstat(p, st); HostG h; if (decide("lstat")) { errno = EACCES; return -1; } return lstat(p, st); }
int __wrap_mkdir(const char* p, mode_t m) { if (!active()) return mkdir(p, m); HostG h; int c = decide("mkdir"); if (c) { errno = c == 1 ? EACCES : ENOSPC; return -1; } return mkdir(p, m); }
int __wrap_rmdir(const char* p) { if (!active()) return rmdir(p); HostG h; int c = decide("rmdir"); if (c) { errno = c == 1 ? EACCES : EBUSY; return -1; } return rmdir(p); }
ssize_t __wrap_sendfile(int out, int in, off_t* off, size_t n) {
  if (!active()) return sendfile(out, in, off, n);
  HostG h; int c = decide("sendfile");
  if (c == 1) { errno = EIO; return -1; }
  if (c == 2 && n > 1) return sendfile(out, in, off, n / 2);
  if (c == 2) { errno = EIO; return -1; }
  return sendfile(out, in, off, n);
}
DIR* __wrap_opendir(const char* p) {
  if (!active()) return opendir(p);
  HostG h; int c = decide("opendir"); if (c) { errno = c == 1 ? EACCES : EMFILE; return 0; }
  DIR* d = opendir(p); if (!d) return 0;
  SimDir* sd = new SimDir; sd->pos = 0;
  while (struct dirent* e = readdir(d)) sd->ents.push_back(*e);
  closedir(d);
  std::sort(sd->ents.begin(), sd->ents.end(), [](const struct dirent& a, const struct dirent& b) { return strcmp(a.d_name, b.d_name) < 0; });
  int o = sd->ents.size() > 1 ? choose(K_PEER, 3) : 0;     // readdir order: sorted, reversed, rotated
  if (o == 1) { std::reverse(sd->ents.begin(), sd->ents.end()); fault("readdir_order"); } else if (o == 2) { std::rotate(sd->ents.begin(), sd->ents.begin() + sd->ents.size() / 2, sd->ents.end()); fault("readdir_order"); }
  dirs.insert(sd);
  return (DIR*)sd;
}
struct dirent* __wrap_readdir(DIR* d) {
  if (!dirs.count((SimDir*)d)) return readdir(d);
  HostG h; SimDir* sd = (SimDir*)d;
  if (decide("readdir")) { errno = EIO; return 0; }
  if (sd->pos >= sd->ents.size()) return 0;    // end of directory: errno untouched
  return &sd->ents[sd->pos++];
}
int __wrap_closedir(DIR* d) { if (!dirs.count((SimDir*)d)) return closedir(d); HostG h; dirs.erase((SimDir*)d); delete (SimDir*)d; return 0; }
}
