// simrt: POSIX threads / semaphores / clocks modelled on top of the fiber scheduler.
// Reached from libnstd + harness objects through symbol redirection (objcopy --redefine-syms, X -> __wrap_X).
// Outside a simulation run every wrapper passes through to the real function.
// Compiled WITHOUT instrumentation.
#include "sim.hpp"
#include "internal.hpp"
#include <pthread.h>
#include <semaphore.h>
#include <errno.h>
#include <time.h>
#include <unistd.h>
#include <sched.h>
#include <stdarg.h>
#include <sys/syscall.h>
#include <sys/time.h>
#include <unordered_map>
#include <vector>
#include <algorithm>

using namespace sim;

static void guardHostDepthReset();
static uint64_t threadsCreatedCount = 0;
static bool semTimedwaitMissing = false;
static uint64_t threadCreateFailures = 0;
namespace {
struct Mx { bool inited, destroyed, recursive; int owner, depth; std::vector<int> waiters; };
struct Cv { bool destroyed; std::vector<int> waiters; };
struct Sm { bool destroyed; unsigned count; std::vector<int> waiters; };
struct Th { void* (*fn)(void*); void* arg; void* ret; int task; bool joined; };
std::unordered_map<const void*, Mx> mxs;
std::unordered_map<const void*, Cv> cvs;
std::unordered_map<const void*, Sm> sms;
std::vector<Th*> ths;
uint64_t cond_after_destroy = 0;
int nproc_knob = 4;

void resetSync() { threadsCreatedCount = 0; semTimedwaitMissing = false; threadCreateFailures = 0; guardHostDepthReset(); mxs.clear(); cvs.clear(); sms.clear(); for (Th* t : ths) delete t; ths.clear(); cond_after_destroy = 0; }
struct Reg { Reg() { addResetHook(resetSync); } } reg;

struct HostG { HostG() { g_host_depth_export++; } ~HostG() { g_host_depth_export--; } };

Mx& mx(const void* p) {
  auto it = mxs.find(p);
  if (it == mxs.end()) { Mx m = {true, false, false, 0, 0, {}}; it = mxs.emplace(p, m).first; }   // statically initialised mutex
  return it->second;
}
void eraseWaiter(std::vector<int>& v, int id) { v.erase(std::remove(v.begin(), v.end(), id), v.end()); }
// A waiter whose time-out has already fired (it is runnable again, on its way out with ETIMEDOUT) is no longer "blocked on the
// condition variable": a signal must not be spent on it (POSIX: unblocks at least one thread that IS blocked; glibc re-issues it).
void pruneWaiters(std::vector<int>& v, const void* obj) { v.erase(std::remove_if(v.begin(), v.end(), [obj](int id) { return !isBlocked(id) || blockedObj(id) != obj; }), v.end()); }

void mutexLock(const void* p) {
  for (;;) {
    Mx& m = mx(p);
    if (m.destroyed) fail("stub/mutex_use_after_destroy", "lock of destroyed mutex");
    if (m.owner == 0) { m.owner = self(); m.depth = 1; return; }
    if (m.owner == self()) {
      if (m.recursive) { m.depth++; return; }
      // default mutex relocked by its owner: deadlock, as on Linux
      m.waiters.push_back(self());
      blockOn("mutex_relock", p, -1);
      continue;
    }
    m.waiters.push_back(self());
    blockOn("mutex", p, -1);
  }
}
int mutexUnlock(const void* p) {
  Mx& m = mx(p);
  if (m.owner != self()) return EPERM;
  if (--m.depth > 0) return 0;
  m.owner = 0;
  std::vector<int> w; w.swap(m.waiters);
  for (int id : w) wake(id);
  return 0;
}
int64_t tsToMono(const struct timespec* ts, clockid_t clk) {
  int64_t t = (int64_t)ts->tv_sec * 1000000000LL + ts->tv_nsec;
  if (clk == CLOCK_REALTIME) t -= (realtimeNs() - nowNs());
  return t;
}
}

namespace sim { uint64_t threadsCreated() { return threadsCreatedCount; } uint64_t threadsNotJoined() { uint64_t n = 0; for (Th* t : ths) if (!t->joined) n++; return n; } void setProcessorCount(int n) { nproc_knob = n; } void setSemTimedwaitMissing(bool m) { semTimedwaitMissing = m; } uint64_t threadCreateFailureCount() { return threadCreateFailures; } uint64_t condOpsAfterDestroy() { return cond_after_destroy; } }

extern "C" {

// ---------------------------------------------------------------- mutex
int __wrap_pthread_mutex_init(pthread_mutex_t* p, const pthread_mutexattr_t* a) {
  if (!inTask()) return pthread_mutex_init(p, a);
  HostG h; yieldSync();
  int type = PTHREAD_MUTEX_DEFAULT; if (a) pthread_mutexattr_gettype(a, &type);
  Mx m = {true, false, type == PTHREAD_MUTEX_RECURSIVE, 0, 0, {}};
  mxs[p] = m;
  return 0;
}
// attribute objects are plain memory, but initialising and setting them are steps another thread can interleave with
int __wrap_pthread_mutexattr_init(pthread_mutexattr_t* a) { if (inTask()) { HostG h; chargeCall(); yieldSync(); } return pthread_mutexattr_init(a); }
int __wrap_pthread_mutexattr_settype(pthread_mutexattr_t* a, int t) { if (inTask()) { HostG h; chargeCall(); yieldSync(); } return pthread_mutexattr_settype(a, t); }
int __wrap_pthread_mutexattr_destroy(pthread_mutexattr_t* a) { if (inTask()) { HostG h; chargeCall(); yieldSync(); } return pthread_mutexattr_destroy(a); }
int __wrap_pthread_mutex_destroy(pthread_mutex_t* p) {
  if (!inTask()) return pthread_mutex_destroy(p);
  HostG h; yieldSync();
  Mx& m = mx(p);
  if (m.owner != 0 || !m.waiters.empty()) { logEvent("mutex_destroy_busy"); return EBUSY; }
  m.destroyed = true;
  return 0;
}
int __wrap_pthread_mutex_lock(pthread_mutex_t* p) {
  if (!inTask()) return pthread_mutex_lock(p);
  HostG h; chargeCall(); yieldSync(); mutexLock(p); return 0;
}
int __wrap_pthread_mutex_trylock(pthread_mutex_t* p) {
  if (!inTask()) return pthread_mutex_trylock(p);
  HostG h; chargeCall(); yieldSync();
  Mx& m = mx(p);
  if (m.owner == 0) { m.owner = self(); m.depth = 1; return 0; }
  if (m.owner == self() && m.recursive) { m.depth++; return 0; }
  return EBUSY;
}
int __wrap_pthread_mutex_unlock(pthread_mutex_t* p) {
  if (!inTask()) return pthread_mutex_unlock(p);
  HostG h; chargeCall(); yieldSync();
  int r = mutexUnlock(p);
  if (r) logEvent("mutex_unlock_eperm");
  return r;
}

// ---------------------------------------------------------------- condvar
int __wrap_pthread_cond_init(pthread_cond_t* c, const pthread_condattr_t* a) {
  if (!inTask()) return pthread_cond_init(c, a);
  HostG h; yieldSync(); Cv v = {false, {}}; cvs[c] = v; return 0;
}
int __wrap_pthread_cond_destroy(pthread_cond_t* c) {
  if (!inTask()) return pthread_cond_destroy(c);
  HostG h; yieldSync();
  Cv& v = cvs[c];
  if (!v.waiters.empty()) { logEvent("cond_destroy_busy"); return EBUSY; }
  v.destroyed = true; return 0;
}
static int condWait(pthread_cond_t* c, pthread_mutex_t* m, int64_t deadline) {
  chargeCall(); yieldSync();
  Cv& v0 = cvs[c];
  if (v0.destroyed) { cond_after_destroy++; return 0; }
  Mx& mm = mx(m);
  if (mm.owner != self()) { fail("stub/cond_wait_without_mutex", "cond_wait with mutex not held"); return EPERM; }
  if (deadline >= 0 && deadline <= nowNs()) return ETIMEDOUT;
  int depth = mm.depth;
  // release + enqueue + block: atomic (no yield point in between)
  mm.depth = 1; mutexUnlock(m);
  bool timedOut = false;
  if (choose(K_SPURIOUS, 2)) {
    fault("spurious_wake");
    forceYield();
  } else {
    cvs[c].waiters.push_back(self());
    timedOut = blockOn(deadline >= 0 ? "cond_timedwait" : "cond_wait", c, deadline);
    if (timedOut) eraseWaiter(cvs[c].waiters, self());
  }
  mutexLock(m);
  mx(m).depth = depth;
  return timedOut ? ETIMEDOUT : 0;
}
int __wrap_pthread_cond_wait(pthread_cond_t* c, pthread_mutex_t* m) {
  if (!inTask()) return pthread_cond_wait(c, m);
  HostG h; return condWait(c, m, -1);
}
int __wrap_pthread_cond_timedwait(pthread_cond_t* c, pthread_mutex_t* m, const struct timespec* ts) {
  if (!inTask()) return pthread_cond_timedwait(c, m, ts);
  HostG h;
  if (ts->tv_nsec < 0 || ts->tv_nsec >= 1000000000L) return EINVAL;
  return condWait(c, m, tsToMono(ts, CLOCK_REALTIME));
}
int __wrap_pthread_cond_signal(pthread_cond_t* c) {
  if (!inTask()) return pthread_cond_signal(c);
  HostG h; chargeCall(); yieldSync();
  Cv& v = cvs[c];
  if (v.destroyed) { cond_after_destroy++; return 0; }
  pruneWaiters(v.waiters, c);
  if (!v.waiters.empty()) {
    int n = (int)v.waiters.size();
    int k = choose(K_WAKEORDER, n);
    if (k) fault("wake_order");
    int id = v.waiters[k]; v.waiters.erase(v.waiters.begin() + k);
    wake(id);
  }
  return 0;
}
int __wrap_pthread_cond_broadcast(pthread_cond_t* c) {
  if (!inTask()) return pthread_cond_broadcast(c);
  HostG h; chargeCall(); yieldSync();
  Cv& v = cvs[c];
  if (v.destroyed) { cond_after_destroy++; return 0; }
  std::vector<int> w; w.swap(v.waiters);
  for (int id : w) wake(id);
  return 0;
}

// ---------------------------------------------------------------- semaphore
int __wrap_sem_init(sem_t* s, int pshared, unsigned value) {
  if (!inTask()) return sem_init(s, pshared, value);
  HostG h; yieldSync(); Sm m = {false, value, {}}; sms[s] = m; return 0;
}
int __wrap_sem_destroy(sem_t* s) {
  if (!inTask()) return sem_destroy(s);
  HostG h; yieldSync(); sms[s].destroyed = true; return 0;
}
int __wrap_sem_post(sem_t* s) {
  if (!inTask()) return sem_post(s);
  HostG h; chargeCall(); yieldSync();
  Sm& m = sms[s]; m.count++;
  std::vector<int> w; w.swap(m.waiters);
  for (int id : w) wake(id);
  return 0;
}
static int semWait(sem_t* s, int64_t deadline, bool tryOnly) {
  chargeCall(); yieldSync();
  if (!tryOnly && choose(K_EINTR, 2)) { fault("eintr"); errno = EINTR; return -1; }
  for (;;) {
    Sm& m = sms[s];
    if (m.count > 0) { m.count--; return 0; }
    if (tryOnly) { errno = EAGAIN; return -1; }
    if (deadline >= 0 && deadline <= nowNs()) { errno = ETIMEDOUT; return -1; }
    m.waiters.push_back(self());
    bool to = blockOn(deadline >= 0 ? "sem_timedwait" : "sem_wait", s, deadline);
    if (to) { eraseWaiter(sms[s].waiters, self()); if (sms[s].count > 0) { sms[s].count--; return 0; } errno = ETIMEDOUT; return -1; }
  }
}
int __wrap_sem_wait(sem_t* s) { if (!inTask()) return sem_wait(s); HostG h; return semWait(s, -1, false); }
int __wrap_sem_trywait(sem_t* s) { if (!inTask()) return sem_trywait(s); HostG h; return semWait(s, -1, true); }
int __wrap_sem_timedwait(sem_t* s, const struct timespec* ts) {
  if (!inTask()) return sem_timedwait(s, ts);
  HostG h;
  if (semTimedwaitMissing) { chargeCall(); yieldSync(); fault("sem_timedwait_enosys"); errno = ENOSYS; return -1; }   /* configuration: a platform without sem_timedwait (the library has a polling fallback for it) */
  if (ts->tv_nsec < 0 || ts->tv_nsec >= 1000000000L) { errno = EINVAL; return -1; }
  return semWait(s, tsToMono(ts, CLOCK_REALTIME), false);
}

// ---------------------------------------------------------------- threads
static void threadMain(void* a) { Th* t = (Th*)a; t->ret = t->fn(t->arg); }
int __wrap_pthread_create(pthread_t* out, const pthread_attr_t* attr, void* (*fn)(void*), void* arg) {
  if (!inTask()) return pthread_create(out, attr, fn, arg);
  HostG h; chargeCall(); yieldSync();
  if (choose(K_THREADFAIL, 2)) {   /* like glibc, the handle has already been stored when the creation of the kernel thread fails */
    fault("pthread_create_eagain"); threadCreateFailures++; *out = (pthread_t)0x7A5C00000000FFFFULL; return EAGAIN; }
  threadsCreatedCount++;
  Th* t = new Th{fn, arg, 0, 0, false};
  ths.push_back(t);
  t->task = spawn(threadMain, t, "thread");
  *out = (pthread_t)(0x7A5C000000000000ULL | (uint64_t)ths.size());
  yieldSync();
  return 0;
}
int __wrap_pthread_join(pthread_t th, void** ret) {
  if (!inTask()) return pthread_join(th, ret);
  HostG h; chargeCall(); yieldSync();
  uint64_t v = (uint64_t)th;
  if ((v >> 48) != 0x7A5C || (v & 0xffff) == 0 || (v & 0xffff) > ths.size()) { fail("stub/join_bad_thread", "pthread_join of unknown thread"); return ESRCH; }
  Th* t = ths[(v & 0xffff) - 1];
  if (t->joined) { fail("stub/join_twice", "pthread_join called twice for one thread"); return EINVAL; }
  joinTask(t->task);
  t->joined = true;
  taskReap(t->task);
  if (ret) *ret = t->ret;
  return 0;
}
int __wrap_sched_yield() { if (!inTask()) return sched_yield(); HostG h; chargeCall(); forceYield(); return 0; }
int __wrap_usleep(useconds_t us) { if (!inTask()) return usleep(us); HostG h; chargeCall(); sleepNs((int64_t)us * 1000); return 0; }
unsigned __wrap_sleep(unsigned s) { if (!inTask()) return sleep(s); HostG h; chargeCall(); sleepNs((int64_t)s * 1000000000LL); return 0; }
int __wrap_nanosleep(const struct timespec* rq, struct timespec* rm) {
  if (!inTask()) return nanosleep(rq, rm);
  HostG h; chargeCall(); sleepNs((int64_t)rq->tv_sec * 1000000000LL + rq->tv_nsec); if (rm) { rm->tv_sec = 0; rm->tv_nsec = 0; } return 0;
}

// ---------------------------------------------------------------- clocks, cpu count, tid
int __wrap_clock_gettime(clockid_t clk, struct timespec* ts) {
  if (!inTask()) return clock_gettime(clk, ts);
  chargeCall(); yieldSync();
  int64_t t = (clk == CLOCK_REALTIME || clk == CLOCK_REALTIME_COARSE) ? realtimeNs() : nowNs();
  if (clk == CLOCK_REALTIME_COARSE || clk == CLOCK_MONOTONIC_COARSE) t -= t % 4000000LL;   /* the coarse clocks stand still between timer ticks (4 ms): they lag the precise ones by up to a tick */
  ts->tv_sec = t / 1000000000LL; ts->tv_nsec = t % 1000000000LL;
  return 0;
}
time_t __wrap_time(time_t* out) {
  if (!inTask()) return time(out);
  chargeCall(); yieldSync();
  time_t t = (time_t)(realtimeNs() / 1000000000LL); if (out) *out = t; return t;
}
int __wrap_gettimeofday(struct timeval* tv, void* tz) {
  if (!inTask()) return gettimeofday(tv, (struct timezone*)tz);
  chargeCall(); yieldSync();
  int64_t t = realtimeNs(); tv->tv_sec = t / 1000000000LL; tv->tv_usec = (t % 1000000000LL) / 1000; return 0;
}
long __wrap_sysconf(int name) {
  if (!inTask()) return sysconf(name);
  if (name == _SC_NPROCESSORS_ONLN || name == _SC_NPROCESSORS_CONF) return nproc_knob;
  return sysconf(name);
}
long __wrap_syscall(long no, ...) {
  va_list ap; va_start(ap, no);
  long a = va_arg(ap, long), b = va_arg(ap, long), c = va_arg(ap, long), d = va_arg(ap, long), e = va_arg(ap, long), f = va_arg(ap, long);
  va_end(ap);
  if (inTask() && no == SYS_gettid) return 100000 + self();
  return syscall(no, a, b, c, d, e, f);
}

// ---------------------------------------------------------------- function-local static guards
// The initialiser of a function-local static runs once per PROCESS, not once per run.  To keep runs independent of their
// position in the process, the first initialisation that happens inside a task is executed in host mode: no pre-emption,
// no yield points counted, allocations from malloc (they legitimately outlive the run).  Byte 0 of the guard = initialised.
static int guardHostDepth = 0;
}
static void guardHostDepthReset() { guardHostDepth = 0; }
extern "C" {
int __wrap___cxa_guard_acquire(uint64_t* gd) {
  if (*(volatile char*)gd) return 0;
  if (inTask()) { g_host_depth_export++; sim::noPreemptEnter(); guardHostDepth++; }
  return 1;
}
void __wrap___cxa_guard_release(uint64_t* gd) {
  *(volatile char*)gd = 1;
  if (inTask() && guardHostDepth > 0) { guardHostDepth--; sim::noPreemptLeave(); g_host_depth_export--; }
}
void __wrap___cxa_guard_abort(uint64_t* gd) { if (inTask() && guardHostDepth > 0) { guardHostDepth--; sim::noPreemptLeave(); g_host_depth_export--; } }

}
