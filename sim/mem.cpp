// simrt memory: deterministic arena with ledger + shadow, replacement operator new/delete, mem* wrappers.
// Compiled WITHOUT instrumentation.
#include "sim.hpp"
#include "internal.hpp"
#include <stdlib.h>
#include <string.h>
#include <stdio.h>
#include <sys/mman.h>
#include <new>
#include <unistd.h>

namespace sim {

static char* const ARENA = (char*)0x200000000000ULL;
static const size_t ARENA_SIZE = 1ULL << 30;           // virtual; touched lazily
static unsigned char* const SHADOW = (unsigned char*)0x300000000000ULL;
static const size_t SHADOW_SIZE = ARENA_SIZE / 8;

static bool mapped = false;
static size_t bump = 0;          // bytes used
static size_t shadow_dirty = 0;  // shadow bytes to clear at reset
static uint64_t n_alloc = 0, n_free = 0, live_bytes = 0, live_blocks = 0;
static uint64_t ignore_before = 0;

struct Hdr { uint64_t magic; uint64_t size; uint64_t serial; uint32_t task; uint32_t state; };  // 32 bytes, sits right before user memory
static const uint64_t MAGIC = 0x51AB51AB51AB51ABULL;
enum { S_LIVE = 1, S_FREED = 2 };
enum { SH_BAD = 0, SH_FREED = 0xFD };   // 1..8 = number of valid bytes in granule

static void mapArena() {
  if (mapped) return;
  void* a = mmap(ARENA, ARENA_SIZE, PROT_READ | PROT_WRITE, MAP_PRIVATE | MAP_ANONYMOUS | MAP_FIXED_NOREPLACE | MAP_NORESERVE, -1, 0);
  void* s = mmap(SHADOW, SHADOW_SIZE, PROT_READ | PROT_WRITE, MAP_PRIVATE | MAP_ANONYMOUS | MAP_FIXED_NOREPLACE | MAP_NORESERVE, -1, 0);
  if (a != ARENA || s != SHADOW) stubError("cannot map arena at fixed address");
  mapped = true;
}

void memReset() {
  mapArena();
  if (shadow_dirty) memset(SHADOW, 0, shadow_dirty);
  bump = 0; shadow_dirty = 0; n_alloc = n_free = live_bytes = live_blocks = 0; ignore_before = 0;
}
static struct Reg { Reg() { addResetHook(memReset); } } reg;

bool memIsArena(const void* p) { return (const char*)p >= ARENA && (const char*)p < ARENA + ARENA_SIZE; }

static inline void setShadow(char* p, size_t n, unsigned char v) {   // p 8-aligned
  size_t i = (p - ARENA) >> 3, full = n >> 3;
  memset(SHADOW + i, v, full);
  if (n & 7) SHADOW[i + full] = (v == 8) ? (unsigned char)(n & 7) : v, full++;
  if (i + full > shadow_dirty) shadow_dirty = i + full;
}

static void* arenaAlloc(size_t n) {
  mapArena();
  size_t user = (n + 15) & ~(size_t)15; if (!user) user = 16;
  size_t total = 16 /*redzone*/ + sizeof(Hdr) + user + 16;
  if (n > (256u << 20)) { fail("mem/absurd_allocation_size", "allocation of %zu bytes requested (garbage length?)", n); return malloc(16); }
  if (bump + total > ARENA_SIZE) stubError("arena exhausted");
  char* base = ARENA + bump; bump += total;
  Hdr* h = (Hdr*)(base + 16);
  h->magic = MAGIC; h->size = n; h->serial = ++n_alloc; h->task = (uint32_t)self(); h->state = S_LIVE;
  char* u = (char*)(h + 1);
  memset(u, 0xCD, user);
  setShadow(base, 16 + sizeof(Hdr), SH_BAD);
  setShadow(u, n ? n : 1, 8);
  live_bytes += n; live_blocks++;
  traceNote("alloc", (int64_t)h->serial, (int64_t)n, (int64_t)(u - ARENA));
  return u;
}

static void describe(const void* p, char* out, size_t outn) {
  // find the block containing/nearest below p by walking from the start (diagnostics only)
  size_t off = 0; const Hdr* best = 0;
  while (off < bump) { const Hdr* h = (const Hdr*)(ARENA + off + 16); if (h->magic != MAGIC) break; const char* u = (const char*)(h + 1); if (u <= (const char*)p + 32) best = h; size_t user = (h->size + 15) & ~(size_t)15; if (!user) user = 16; off += 16 + sizeof(Hdr) + user + 16; if (u > (const char*)p) break; }
  if (best) snprintf(out, outn, "block#%llu size=%llu by task %u %s, offset %lld", (unsigned long long)best->serial, (unsigned long long)best->size, best->task, best->state == S_LIVE ? "live" : "freed", (long long)((const char*)p - (const char*)(best + 1)));
  else snprintf(out, outn, "no block");
}

static void arenaFree(void* p) {
  Hdr* h = (Hdr*)p - 1;
  if (((uintptr_t)p & 15) || (char*)h < ARENA || h->magic != MAGIC) { char d[200]; describe(p, d, sizeof d); fail("mem/free_of_non_block", "delete of pointer that is not a block start (%s)", d); return; }
  if (h->state != S_LIVE) { fail("mem/double_free", "block#%llu size=%llu allocated by task %u released twice", (unsigned long long)h->serial, (unsigned long long)h->size, h->task); return; }
  h->state = S_FREED;
  size_t user = (h->size + 15) & ~(size_t)15; if (!user) user = 16;
  memset(p, 0xDD, user);
  setShadow((char*)p, user, SH_FREED);
  live_bytes -= h->size; live_blocks--; n_free++;
}

bool memIsLive(const void* p, size_t n) {
  if (!memIsArena(p)) return true;
  const char* c = (const char*)p;
  for (size_t i = 0; i < n;) {
    size_t off = (c + i) - ARENA; unsigned char s = SHADOW[off >> 3]; size_t in = off & 7;
    if (s == SH_BAD || s == SH_FREED || in >= s) return false;
    size_t adv = s - in; i += adv;
    if (s < 8 && i < n) return false;
  }
  return true;
}

// innermost (possibly inlined) function containing pc, via addr2line on our own executable; cached; used only when a violation is reported
static const char* symbolize(void* pc) {
  static struct { void* pc; char name[200]; } cache[64]; static int ncache = 0;
  for (int i = 0; i < ncache; ++i) if (cache[i].pc == pc) return cache[i].name;
  char cmd[128]; snprintf(cmd, sizeof cmd, "addr2line -f -C -i -e /proc/%d/exe %p 2>/dev/null", (int)getpid(), (void*)((char*)pc - 1));
  char line[400] = "?";
  g_host_depth_export++;
  FILE* f = popen(cmd, "r");
  if (f) { if (!fgets(line, sizeof line, f)) strcpy(line, "?"); pclose(f); }
  g_host_depth_export--;
  char* e = strpbrk(line, "(\n"); if (e) *e = 0;
  if (ncache < 64) { cache[ncache].pc = pc; snprintf(cache[ncache].name, sizeof cache[ncache].name, "%s", line); return cache[ncache++].name; }
  static char last[200]; snprintf(last, sizeof last, "%s", line); return last;
}

void memAccess(const void* p, size_t n, bool write, void* pc) {
  if (!memIsArena(p) || !inRun()) return;
  if (memIsLive(p, n)) return;
  size_t off = (const char*)p - ARENA; unsigned char s = SHADOW[off >> 3];
  char d[200]; describe(p, d, sizeof d);
  char cls[256]; snprintf(cls, sizeof cls, "%s@%.200s", (s == SH_FREED) ? "mem/use_after_free" : "mem/out_of_bounds", symbolize(pc));
  fail(cls, "%s of %zu bytes at %p (%s) pc=%p task=%d", write ? "write" : "read", n, p, d, pc, self());
}

MemStats memStats() { MemStats m = {n_alloc, n_free, live_blocks, live_bytes}; return m; }
uint64_t memMark() { return n_alloc; }
void memSetIgnoreBefore(uint64_t mark) { ignore_before = mark; }
void memCheckLeaks(const char* cls) {
  size_t off = 0; uint64_t cnt = 0, bytes = 0; char first[200] = "";
  while (off < bump) {
    const Hdr* h = (const Hdr*)(ARENA + off + 16); if (h->magic != MAGIC) break;
    if (h->state == S_LIVE && h->serial > ignore_before) { if (!cnt) snprintf(first, sizeof first, "first: block#%llu size=%llu by task %u", (unsigned long long)h->serial, (unsigned long long)h->size, h->task); cnt++; bytes += h->size; }
    size_t user = (h->size + 15) & ~(size_t)15; if (!user) user = 16; off += 16 + sizeof(Hdr) + user + 16;
  }
  if (cnt) failSoft(cls, "%llu blocks (%llu bytes) never released; %s", (unsigned long long)cnt, (unsigned long long)bytes, first);
}

static inline bool useArena() { return inRun() && inTask() && g_host_depth_export == 0; }

} // namespace sim

using namespace sim;

static void* xalloc(size_t n) {
  if (useArena()) return arenaAlloc(n);
  if (inRun()) traceNote("hostalloc", (int64_t)n, (int64_t)g_host_depth_export, inTask());
  void* p = malloc(n ? n : 1); if (!p) abort(); return p;
}
static void xfree(void* p) {
  if (!p) return;
  if (memIsArena(p)) { if (inRun()) arenaFree(p); return; }   // arena pointers outside a run: stale, ignore
  free(p);
}
void* operator new(size_t n) { return xalloc(n); }
void* operator new[](size_t n) { return xalloc(n); }
void* operator new(size_t n, const std::nothrow_t&) noexcept { return xalloc(n); }
void* operator new[](size_t n, const std::nothrow_t&) noexcept { return xalloc(n); }
void operator delete(void* p) noexcept { xfree(p); }
void operator delete[](void* p) noexcept { xfree(p); }
void operator delete(void* p, size_t) noexcept { xfree(p); }
void operator delete[](void* p, size_t) noexcept { xfree(p); }
void operator delete(void* p, const std::nothrow_t&) noexcept { xfree(p); }
void operator delete[](void* p, const std::nothrow_t&) noexcept { xfree(p); }

// Only libnstd and harness objects are redirected here (objcopy --redefine-syms); the simulator itself calls libc directly.
extern "C" {
void* __wrap_memcpy(void* d, const void* s, size_t n) { if (n && inTask()) { memAccess(s, n, false, __builtin_return_address(0)); memAccess(d, n, true, __builtin_return_address(0)); yieldMem(); } return memcpy(d, s, n); }
void* __wrap_memmove(void* d, const void* s, size_t n) { if (n && inTask()) { memAccess(s, n, false, __builtin_return_address(0)); memAccess(d, n, true, __builtin_return_address(0)); yieldMem(); } return memmove(d, s, n); }
void* __wrap_memset(void* d, int c, size_t n) { if (n && inTask()) { memAccess(d, n, true, __builtin_return_address(0)); yieldMem(); } return memset(d, c, n); }
int __wrap_memcmp(const void* a, const void* b, size_t n) { if (n && inTask()) { memAccess(a, n, false, __builtin_return_address(0)); memAccess(b, n, false, __builtin_return_address(0)); yieldMem(); } return memcmp(a, b, n); }
size_t __wrap_strlen(const char* s) { size_t n = strlen(s); if (inTask()) memAccess(s, n + 1, false, __builtin_return_address(0)); return n; }
}
