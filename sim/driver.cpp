// simrt driver implementation.  Compiled WITHOUT instrumentation.
#include "driver.hpp"
#include "internal.hpp"
#include <stdio.h>
#include <stdlib.h>
#include <string.h>
#include <signal.h>
#include <unistd.h>
#include <time.h>
#include <errno.h>
#include <sys/wait.h>
#include <vector>
#include <set>
#include <algorithm>
#include <functional>

using namespace sim;

namespace simdrv {

static double wallNow() { struct timespec ts; clock_gettime(CLOCK_MONOTONIC, &ts); return ts.tv_sec + ts.tv_nsec * 1e-9; }
static uint64_t mix64(uint64_t a, uint64_t b) { uint64_t x = a * 0x9e3779b97f4a7c15ULL + b + 0x7f4a7c15ULL; x ^= x >> 32; x *= 0xd6e8feb86659fd93ULL; x ^= x >> 32; x *= 0xd6e8feb86659fd93ULL; x ^= x >> 32; return x; }

int64_t knob(const RunSpec& s, const char* name, int64_t dflt) { auto it = s.knobs.find(name); return it == s.knobs.end() ? dflt : it->second; }

// ------------------------------------------------------------------ JSON out
static void jstr(std::string& o, const std::string& s) {
  o += '"';
  for (unsigned char c : s) { if (c == '"' || c == '\\') { o += '\\'; o += (char)c; } else if (c < 32) { char b[8]; snprintf(b, sizeof b, "\\u%04x", c); o += b; } else o += (char)c; }
  o += '"';
}
static std::string num(int64_t v) { char b[32]; snprintf(b, sizeof b, "%lld", (long long)v); return b; }
static std::string unum(uint64_t v) { char b[32]; snprintf(b, sizeof b, "%llu", (unsigned long long)v); return b; }

std::string specToJson(const Harness& h, const RunSpec& s, const Result* r, bool pretty) {
  std::string o; const char* nl = pretty ? "\n " : "";
  o += "{"; o += nl; o += "\"property\":"; jstr(o, h.property); o += ","; o += nl; o += "\"harness\":"; jstr(o, h.name);
  o += ","; o += nl; o += "\"seed\":" + unum(s.seed);
  o += ","; o += nl; o += "\"knobs\":{"; bool f = true; for (auto& k : s.knobs) { if (!f) o += ","; f = false; jstr(o, k.first); o += ":" + num(k.second); } o += "}";
  o += ","; o += nl; o += "\"plan\":[";
  for (size_t i = 0; i < s.plan.size(); ++i) { const Op& p = s.plan[i]; if (i) o += ","; if (pretty) o += "\n  "; o += "[" + num(p.task) + ","; jstr(o, h.opName ? h.opName(p.code) : "op"); o += "," + num(p.code) + "," + num(p.a[0]) + "," + num(p.a[1]) + "," + num(p.a[2]) + "," + num(p.a[3]) + "]"; }
  o += "]";
  const std::vector<Decision>& ds = r ? r->decisions : s.decisions;
  const std::vector<Preemption>& ps = r ? r->preemptions : s.preemptions;
  o += ","; o += nl; o += "\"decisions\":[";
  for (size_t i = 0; i < ds.size(); ++i) { if (i) o += ","; o += "[" + num(ds[i].task) + ","; jstr(o, kindName(ds[i].kind)); o += "," + num(ds[i].kind) + "," + num(ds[i].nth) + "," + num(ds[i].value) + "]"; }
  o += "]";
  o += ","; o += nl; o += "\"preemptions\":[";
  for (size_t i = 0; i < ps.size(); ++i) { if (i) o += ","; o += "[" + num(ps[i].task) + "," + unum(ps[i].yield) + "," + num(ps[i].target) + "]"; }
  o += "]";
  if (r) {
    o += ","; o += nl; o += "\"signature\":"; jstr(o, r->cls);
    o += ","; o += nl; o += "\"detail\":"; jstr(o, r->detail);
    o += ","; o += nl; o += "\"log_hash\":"; jstr(o, unum(r->hash));
    o += ","; o += nl; o += "\"steps\":" + unum(r->steps);
    if (!r->tail.empty()) { o += ","; o += nl; o += "\"last_events\":["; for (size_t i = 0; i < r->tail.size(); ++i) { if (i) o += ","; if (pretty) o += "\n  "; jstr(o, r->tail[i]); } o += "]"; }
  }
  o += pretty ? "\n}\n" : "}";
  return o;
}

// ------------------------------------------------------------------ JSON in (minimal)
struct JV { enum T { NUL, NUM, STR, ARR, OBJ } t = NUL; double n = 0; int64_t i = 0; uint64_t u = 0; std::string s; std::vector<JV> a; std::vector<std::pair<std::string, JV>> o;
  const JV* get(const char* k) const { for (auto& p : o) if (p.first == k) return &p.second; return nullptr; } };
struct JP { const char* p; bool ok = true;
  void ws() { while (*p == ' ' || *p == '\n' || *p == '\t' || *p == '\r') ++p; }
  JV val() { ws(); JV v;
    if (*p == '{') { v.t = JV::OBJ; ++p; ws(); if (*p == '}') { ++p; return v; } for (;;) { ws(); JV k = val(); ws(); if (*p != ':') { ok = false; return v; } ++p; JV x = val(); v.o.push_back({k.s, x}); ws(); if (*p == ',') { ++p; continue; } if (*p == '}') { ++p; break; } ok = false; return v; } }
    else if (*p == '[') { v.t = JV::ARR; ++p; ws(); if (*p == ']') { ++p; return v; } for (;;) { v.a.push_back(val()); ws(); if (*p == ',') { ++p; continue; } if (*p == ']') { ++p; break; } ok = false; return v; } }
    else if (*p == '"') { v.t = JV::STR; ++p; while (*p && *p != '"') { if (*p == '\\') { ++p; if (*p == 'n') v.s += '\n'; else if (*p == 'u') { unsigned c = 0; sscanf(p + 1, "%4x", &c); v.s += (char)c; p += 4; } else v.s += *p; ++p; } else v.s += *p++; } if (*p == '"') ++p; else ok = false; }
    else if (*p == '-' || (*p >= '0' && *p <= '9')) { v.t = JV::NUM; char* e; if (*p == '-') { v.i = strtoll(p, &e, 10); v.u = (uint64_t)v.i; } else { v.u = strtoull(p, &e, 10); v.i = (int64_t)v.u; } p = e; if (*p == '.' || *p == 'e' || *p == 'E') { strtod(p, &e); p = e; } }
    else if (!strncmp(p, "true", 4)) { p += 4; v.t = JV::NUM; v.i = 1; } else if (!strncmp(p, "false", 5)) { p += 5; v.t = JV::NUM; } else if (!strncmp(p, "null", 4)) { p += 4; } else ok = false;
    return v; } };

static bool readFile(const char* path, std::string& out) { FILE* f = fopen(path, "rb"); if (!f) return false; char b[65536]; size_t n; while ((n = fread(b, 1, sizeof b, f)) > 0) out.append(b, n); fclose(f); return true; }

static bool specFromJson(const std::string& txt, RunSpec& s, std::string& sig, std::string& hash) {
  JP jp{txt.c_str()}; JV v = jp.val(); if (!jp.ok || v.t != JV::OBJ) return false;
  if (const JV* x = v.get("seed")) s.seed = x->u;
  if (const JV* x = v.get("knobs")) for (auto& k : x->o) s.knobs[k.first] = k.second.i;
  if (const JV* x = v.get("plan")) for (auto& e : x->a) { if (e.a.size() < 7) return false; Op p; p.task = (int)e.a[0].i; p.code = (int)e.a[2].i; for (int i = 0; i < 4; ++i) p.a[i] = e.a[3 + i].i; s.plan.push_back(p); }
  if (const JV* x = v.get("decisions")) for (auto& e : x->a) { if (e.a.size() < 5) return false; s.decisions.push_back(Decision{(int)e.a[0].i, (int)e.a[2].i, (int)e.a[3].i, (int)e.a[4].i}); }
  if (const JV* x = v.get("preemptions")) for (auto& e : x->a) { if (e.a.size() < 3) return false; s.preemptions.push_back(Preemption{(int)e.a[0].i, e.a[1].u, (int)e.a[2].i}); }
  if (const JV* x = v.get("signature")) sig = x->s;
  if (const JV* x = v.get("log_hash")) hash = x->s;
  s.replay = true;
  return true;
}

// ------------------------------------------------------------------ crash / hang reporting
static volatile uint64_t cur_seed = 0; static volatile long cur_index = -1; static const char* cur_phase = "search";
static volatile int tainted = 0;
static volatile unsigned long long g_runs_done = 0, g_nontrivial_done = 0;   // a violation was already found in this process: later crashes may be after-effects of abandoned, memory-unsafe runs
static void crashHandler(int sig) {
  char b[640]; int n = snprintf(b, sizeof b, "\n%s signal=%d index=%ld seed=%llu phase=%s\n", tainted ? "CRASH-TAINTED" : "CRASH", sig, (long)cur_index, (unsigned long long)cur_seed, cur_phase);
  (void)!write(1, b, n);
  if (tainted) { n = snprintf(b, sizeof b, "STATS {\"runs\":%llu,\"nontrivial\":%llu,\"distinct_nontrivial\":0,\"steps\":0,\"switches\":0,\"simtime_s\":0,\"wall_s\":0,\"budget_exhausted\":0,\"faults\":{},\"probes\":{\"worker_died_after_violation\":1},\"violation_classes\":{},\"samples\":[]}\n", g_runs_done, g_nontrivial_done); (void)!write(1, b, n); }
  _exit(3);
}
static void installHandlers() {
  static char alt[65536]; stack_t ss; ss.ss_sp = alt; ss.ss_size = sizeof alt; ss.ss_flags = 0; sigaltstack(&ss, 0);
  struct sigaction sa; memset(&sa, 0, sizeof sa); sa.sa_handler = crashHandler; sa.sa_flags = SA_ONSTACK;
  sigaction(SIGSEGV, &sa, 0); sigaction(SIGBUS, &sa, 0); sigaction(SIGILL, &sa, 0); sigaction(SIGFPE, &sa, 0); sigaction(SIGABRT, &sa, 0); sigaction(SIGALRM, &sa, 0);
}

// ------------------------------------------------------------------ isolated execution (fork) for crash classes
struct Brief { bool violated; std::string cls; uint64_t hash; };
static Brief execIsolated(const Harness& h, const RunSpec& s) {
  int fd[2]; Brief b{false, "", 0};
  if (pipe(fd)) return b;
  fflush(stdout);
  pid_t pid = fork();
  if (pid == 0) {
    close(fd[0]); signal(SIGSEGV, SIG_DFL); signal(SIGBUS, SIG_DFL); signal(SIGILL, SIG_DFL); signal(SIGFPE, SIG_DFL); signal(SIGABRT, SIG_DFL); signal(SIGALRM, SIG_DFL); alarm(60);
    Result r = h.execute(s, false);
    char buf[600]; int n = snprintf(buf, sizeof buf, "%d %llu %s", r.violated ? 1 : 0, (unsigned long long)r.hash, r.cls.c_str());
    (void)!write(fd[1], buf, n); _exit(0);
  }
  close(fd[1]);
  char buf[700]; ssize_t n = 0, k; while ((k = read(fd[0], buf + n, sizeof buf - 1 - n)) > 0) n += k; buf[n] = 0; close(fd[0]);
  int st = 0; waitpid(pid, &st, 0);
  if (WIFSIGNALED(st)) { b.violated = true; char c[64]; snprintf(c, sizeof c, "crash/signal%d", WTERMSIG(st)); b.cls = c; return b; }
  int v = 0; unsigned long long hh = 0; int off = 0;
  if (sscanf(buf, "%d %llu %n", &v, &hh, &off) >= 2) { b.violated = v; b.hash = hh; b.cls = buf + off; }
  return b;
}

// ------------------------------------------------------------------ minimisation (ddmin-style over ops, decisions, pre-emptions, arguments)
struct Shrinker {
  const Harness& h; std::string cls; int budget; int runs = 0; bool isolated;
  bool test(const RunSpec& s, Result* out) {
    if (runs >= budget) return false;
    if (h.valid && !h.valid(s)) return false;
    runs++;
    if (isolated) { Brief b = execIsolated(h, s); return b.violated && b.cls == cls; }
    Result r = h.execute(s, false);
    bool ok = r.violated && r.cls == cls;
    if (ok && out) *out = r;
    return ok;
  }
  template <class T> void shrinkVec(RunSpec& s, std::vector<T> RunSpec::*field) {
    size_t chunk = ((s.*field).size() + 1) / 2;
    while (chunk >= 1 && runs < budget) {
      bool any = false;
      for (size_t start = 0; start < (s.*field).size() && runs < budget;) {
        RunSpec c = s; std::vector<T>& v = c.*field;
        size_t end = std::min(v.size(), start + chunk);
        v.erase(v.begin() + start, v.begin() + end);
        if (test(c, nullptr)) { s = c; any = true; } else start += chunk;
      }
      if (chunk == 1 && !any) break;
      if (!any) chunk /= 2; else if (chunk > (s.*field).size()) chunk = ((s.*field).size() + 1) / 2;
      if (chunk == 0) break;
    }
  }
  void shrinkArgs(RunSpec& s) {
    for (size_t i = 0; i < s.plan.size() && runs < budget; ++i) for (int k = 0; k < 4; ++k) {
      int64_t v = s.plan[i].a[k];
      if (v <= 1) continue;
      for (int64_t cand : {(int64_t)0, (int64_t)1, v / 2}) { if (cand >= v) continue; RunSpec c = s; c.plan[i].a[k] = cand; if (test(c, nullptr)) { s = c; break; } }
    }
  }
  RunSpec minimise(const RunSpec& orig) {
    RunSpec s = orig;
    for (int round = 0; round < 3 && runs < budget; ++round) {
      size_t before = s.plan.size() + s.decisions.size() + s.preemptions.size();
      shrinkVec<Op>(s, &RunSpec::plan);
      shrinkVec<Decision>(s, &RunSpec::decisions);
      shrinkVec<Preemption>(s, &RunSpec::preemptions);
      shrinkArgs(s);
      if (s.plan.size() + s.decisions.size() + s.preemptions.size() == before) break;
    }
    return s;
  }
};

static std::string sanitize(const std::string& s) { std::string o; for (char c : s) o += (isalnum((unsigned char)c) ? c : '_'); return o.substr(0, 60); }

// Replays r's recording of spec in-process, minimises, writes the replay file. Returns path ("" if nondeterministic).
static std::string confirmAndMinimise(const Harness& h, const RunSpec& spec, const Result& r, const char* outdir, int shrinkBudget, std::string* status) {
  RunSpec rs = spec; rs.replay = true; rs.decisions = r.decisions; rs.preemptions = r.preemptions;
  cur_phase = "confirm";
  Result r2 = h.execute(rs, false);
  if (!r2.violated || r2.cls != r.cls || r2.hash != r.hash) {
    if (getenv("SIM_DEBUG")) { RunSpec a = spec; Result x = h.execute(a, true); printf("--- search-mode rerun: violated=%d cls=%s hash=%llu\n", x.violated, x.cls.c_str(), (unsigned long long)x.hash); for (auto& l : x.tail) printf("   %s\n", l.c_str()); Result y = h.execute(rs, true); printf("--- replay-mode rerun: violated=%d hash=%llu\n", y.violated, (unsigned long long)y.hash); for (auto& l : y.tail) printf("   %s\n", l.c_str()); }
    *status = "NONDET first=" + r.cls + "/" + unum(r.hash) + " replay=" + (r2.violated ? r2.cls : std::string("none")) + "/" + unum(r2.hash);
    return "";
  }
  cur_phase = "shrink";
  Shrinker sh{h, r.cls, shrinkBudget, 0, true};   // candidates run in a forked child: memory-unsafe mutants may crash on shrunk inputs
  RunSpec m = sh.minimise(rs);
  cur_phase = "final";
  Result fin = h.execute(m, true);
  Result fin2 = h.execute(m, true);
  if (!fin.violated || fin.cls != r.cls || fin.hash != fin2.hash) { *status = "NONDET after minimisation"; return ""; }
  char path[512]; snprintf(path, sizeof path, "%s/%s-%s-%llu.json", outdir, h.property, sanitize(r.cls).c_str(), (unsigned long long)spec.seed);
  std::string js = specToJson(h, m, &fin, true);
  // append provenance
  js.erase(js.find_last_of('}'));
  char extra[300]; snprintf(extra, sizeof extra, " ,\"minimised_from\":{\"ops\":%zu,\"decisions\":%zu,\"preemptions\":%zu,\"shrink_runs\":%d}\n}\n", spec.plan.size(), r.decisions.size(), r.preemptions.size(), sh.runs);
  js += extra;
  FILE* f = fopen(path, "w"); if (!f) { *status = "cannot write replay"; return ""; } fputs(js.c_str(), f); fclose(f);
  *status = "OK";
  return path;
}

struct Agg {
  uint64_t runs = 0, nontrivial = 0, steps = 0, switches = 0, budget_exhausted = 0; double simtime_s = 0;
  std::map<std::string, uint64_t> faults, probes, classes;
  std::set<uint64_t> hashes;
  void add(const Result& r) {
    runs++; steps += r.steps; switches += r.switches; simtime_s += r.simtime_ns * 1e-9; if (r.budget_exhausted) budget_exhausted++;
    for (auto& f : r.faults) faults[f.first] += f.second;
    for (auto& p : r.probes) probes[p.first] += p.second;
    if (r.nontrivial) { nontrivial++; hashes.insert(r.hash); }
    if (r.violated) classes[r.cls]++;
  }
};

static void jmap(std::string& o, const std::map<std::string, uint64_t>& m) { o += "{"; bool f = true; for (auto& k : m) { if (!f) o += ","; f = false; jstr(o, k.first); o += ":" + unum(k.second); } o += "}"; }

struct ExtraCtx { const Harness* h; Agg* agg; std::vector<std::pair<RunSpec, Result>>* viol; };
static void extraCb(const RunSpec& s, const Result& r, void* c) { ExtraCtx* x = (ExtraCtx*)c; x->agg->add(r); if (r.violated && x->viol->size() < 50) x->viol->push_back({s, r}); }

int main(int argc, char** argv, const Harness& h) {
  signal(SIGPIPE, SIG_DFL);   /* the simulated program starts with the default dispositions whatever this process inherited (sim/net.cpp models SIGPIPE for send() without MSG_NOSIGNAL) */
  uint64_t seed = 1; long runs = 1000, offset = 0, stride = 1; double seconds = 1e9; int tier = 0; const char* replay = nullptr; const char* outdir = "replays"; const char* hashOut = nullptr;
  int shrinkBudget = 300; long one = -1; uint64_t runSeed = 0; bool haveRunSeed = false; bool verbose = false; int maxCand = 6; const char* countFiles = nullptr; int countArg = 0;
  for (int i = 1; i < argc; ++i) {
    std::string a = argv[i];
    auto nxt = [&]() -> const char* { return i + 1 < argc ? argv[++i] : ""; };
    if (a == "--seed") seed = strtoull(nxt(), 0, 10); else if (a == "--runs") runs = atol(nxt()); else if (a == "--offset") offset = atol(nxt()); else if (a == "--stride") stride = atol(nxt());
    else if (a == "--seconds") seconds = atof(nxt()); else if (a == "--tier") { std::string t = nxt(); tier = (t == "thorough") ? 1 : 0; } else if (a == "--replay") replay = nxt();
    else if (a == "--outdir") outdir = nxt(); else if (a == "--hashes") hashOut = nxt(); else if (a == "--shrink-budget") shrinkBudget = atoi(nxt()); else if (a == "--one") one = atol(nxt()); else if (a == "--run-seed") { runSeed = strtoull(nxt(), 0, 10); haveRunSeed = true; one = 0; }
    else if (a == "-v") verbose = true; else if (a == "--count-distinct") { countFiles = ""; countArg = i + 1; break; }
    else { fprintf(stderr, "unknown argument %s\n", a.c_str()); return 2; }
  }
  if (countFiles) {   // merge hash files and count distinct values
    std::vector<uint64_t> all;
    for (int i = countArg; i < argc; ++i) { FILE* f = fopen(argv[i], "rb"); if (!f) continue; uint64_t v; while (fread(&v, 8, 1, f) == 1) all.push_back(v); fclose(f); }
    std::sort(all.begin(), all.end()); size_t d = std::unique(all.begin(), all.end()) - all.begin();
    printf("%zu\n", d); return 0;
  }
  static std::string absOut; if (outdir[0] != '/') { char cwd[4096]; if (getcwd(cwd, sizeof cwd)) { absOut = std::string(cwd) + "/" + outdir; outdir = absOut.c_str(); } }   // harnesses may chdir
  installHandlers();
  setvbuf(stdout, 0, _IOLBF, 0);

  if (replay) {
    std::string txt, sig, hash; RunSpec s;
    if (readFile(replay, txt) && txt.find("\"regenerate\"") != std::string::npos) {
      // crash replay: regenerate the plan from (base_seed, index) and run it in search mode; a crash ends the process with a CRASH line
      JP jp{txt.c_str()}; JV v = jp.val(); const JV* bs = v.get("base_seed"); const JV* ix = v.get("index"); const JV* tr = v.get("tier");
      if (!jp.ok || !bs || !ix) { fprintf(stderr, "bad crash replay file\n"); return 2; }
      RunSpec spec; spec.seed = mix64(bs->u, (uint64_t)ix->i); cur_seed = spec.seed; cur_index = ix->i; cur_phase = "replay";
      alarm(120); h.generate(spec, (tr && tr->s == "thorough") ? 1 : 0);
      Result r = h.execute(spec, true);
      printf("REPLAY property=%s violated=%d signature=%s log_hash=%llu steps=%llu\n", h.property, r.violated ? 1 : 0, r.cls.c_str(), (unsigned long long)r.hash, (unsigned long long)r.steps);
      if (r.violated) printf("VIOLATION property=%s replay=%s\n", h.property, replay);
      return r.violated ? 1 : 0;
    }
    txt.clear();
    if (!readFile(replay, txt) || !specFromJson(txt, s, sig, hash)) { fprintf(stderr, "cannot read replay file %s\n", replay); return 2; }
    cur_seed = s.seed; cur_phase = "replay";
    alarm(120);
    Result r = h.execute(s, true);
    printf("REPLAY property=%s violated=%d signature=%s log_hash=%llu steps=%llu\n", h.property, r.violated ? 1 : 0, r.cls.c_str(), (unsigned long long)r.hash, (unsigned long long)r.steps);
    if (r.violated) printf("DETAIL %s\n", r.detail.c_str());
    if (verbose) for (auto& l : r.tail) printf("  %s\n", l.c_str());
    bool same = r.violated && r.cls == sig && unum(r.hash) == hash;
    printf("REPLAY-MATCH %s (expected signature=%s log_hash=%s)\n", same ? "yes" : "no", sig.c_str(), hash.c_str());
    if (r.violated) printf("VIOLATION property=%s replay=%s\n", h.property, replay);
    return r.violated ? 1 : 0;
  }

  Agg agg; double t0 = wallNow(); long ndiverge = 0; bool stopAfterMemoryViolation = false; int cands = 0; std::set<std::string> reported;
  std::vector<std::string> samples;
  long first = (one >= 0) ? one : offset, last = (one >= 0) ? one + 1 : runs, step = (one >= 0) ? 1 : stride;
  for (long i = first; i < last; i += step) {
    if (wallNow() - t0 > seconds) break;
    RunSpec spec; spec.seed = haveRunSeed ? runSeed : mix64(seed, (uint64_t)i);
    cur_seed = spec.seed; cur_index = i; cur_phase = "search";
    alarm(120);
    h.generate(spec, tier);
    static bool dbg = getenv("SIM_DEBUG") != nullptr;
    Result r = h.execute(spec, dbg);
    if (getenv("SIM_TWICE")) { Result q = h.execute(spec, dbg); if (q.hash != r.hash || q.violated != r.violated) { if (dbg) { for (auto& l : r.tail) printf(" A %s\n", l.c_str()); for (auto& l : q.tail) printf(" B %s\n", l.c_str()); } printf("DIVERGE index=%ld seed=%llu first=%llu second=%llu\n", i, (unsigned long long)spec.seed, (unsigned long long)r.hash, (unsigned long long)q.hash); ndiverge++; } }
    if (getenv("SIM_REPLAYCHECK")) { RunSpec rs = spec; rs.replay = true; rs.decisions = r.decisions; rs.preemptions = r.preemptions; Result q = h.execute(rs, dbg); if (q.hash != r.hash || q.violated != r.violated) { if (dbg) { for (auto& l : r.tail) printf(" A %s\n", l.c_str()); for (auto& l : q.tail) printf(" B %s\n", l.c_str()); printf("%s\n", specToJson(h, rs, nullptr, false).c_str()); } if (getenv("SIM_TRACEDIFF")) sim::traceDumpDiff(); printf("REPLAY-DIVERGE index=%ld seed=%llu search=%llu replay=%llu\n", i, (unsigned long long)spec.seed, (unsigned long long)r.hash, (unsigned long long)q.hash); ndiverge++; } }
    agg.add(r); g_runs_done = agg.runs; g_nontrivial_done = agg.nontrivial;
    if (samples.size() < 3 && r.nontrivial) { RunSpec ss = spec; samples.push_back(specToJson(h, ss, nullptr, false)); }
    std::vector<std::pair<RunSpec, Result>> viol;
    if (r.violated) viol.push_back({spec, r});
    if (h.extra && !r.violated) { ExtraCtx cx{&h, &agg, &viol}; h.extra(spec, tier, extraCb, &cx); }
    for (auto& vr : viol) {
      if (reported.count(vr.second.cls) || cands >= maxCand) continue;
      reported.insert(vr.second.cls);
      tainted = 1;
      alarm(600);
      std::string status;
      std::string path = confirmAndMinimise(h, vr.first, vr.second, outdir, shrinkBudget, &status);
      if (path.empty()) printf("MACHINERY %s index=%ld seed=%llu cls=%s\n", status.c_str(), i, (unsigned long long)spec.seed, vr.second.cls.c_str());
      else { printf("CANDIDATE path=%s index=%ld signature=%s\n", path.c_str(), i, vr.second.cls.c_str()); cands++; }
      if (verbose) printf("DETAIL %s\n", vr.second.detail.c_str());
      if (vr.second.cls.compare(0, 4, "mem/") == 0) stopAfterMemoryViolation = true;
    }
    if (stopAfterMemoryViolation) { printf("NOTE worker stops after a memory-safety violation (process state may be corrupt)\n"); break; }
  }
  alarm(0);
  if (getenv("SIM_REPLAYCHECK")) printf("REPLAYCHECK diverged=%ld of %llu\n", ndiverge, (unsigned long long)agg.runs);
  if (getenv("SIM_TWICE")) printf("TWICE diverged=%ld of %llu\n", ndiverge, (unsigned long long)agg.runs);
  if (hashOut) { FILE* f = fopen(hashOut, "wb"); if (f) { for (uint64_t v : agg.hashes) fwrite(&v, 8, 1, f); fclose(f); } }
  std::string o = "STATS {";
  o += "\"runs\":" + unum(agg.runs) + ",\"nontrivial\":" + unum(agg.nontrivial) + ",\"distinct_nontrivial\":" + unum(agg.hashes.size()) + ",\"steps\":" + unum(agg.steps) + ",\"switches\":" + unum(agg.switches);
  char b[128]; snprintf(b, sizeof b, ",\"simtime_s\":%.3f,\"wall_s\":%.3f,\"budget_exhausted\":%llu", agg.simtime_s, wallNow() - t0, (unsigned long long)agg.budget_exhausted); o += b;
  o += ",\"faults\":"; jmap(o, agg.faults); o += ",\"probes\":"; jmap(o, agg.probes); o += ",\"violation_classes\":"; jmap(o, agg.classes);
  o += ",\"samples\":["; for (size_t i = 0; i < samples.size(); ++i) { if (i) o += ","; o += samples[i]; } o += "]}";
  printf("%s\n", o.c_str());
  return 0;
}

} // namespace simdrv
