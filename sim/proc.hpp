// simproc: simulated child processes (see sim/proc.cpp)
#pragma once
#include "net_internal.hpp"
#include <string>
#include <vector>

namespace simproc {

struct Child {
  int pid; int task; int parentTask;
  bool exited, execed, killed, reaped; int status; int exitCode;
  std::string program; std::vector<std::string> argv, envp; bool envIsParentEnviron;
  std::map<int, std::pair<int, int> > fdsAtExec;   // descriptor -> (file kind, file id) at the moment of exec
  simnet::FdTable table;            // the child's descriptors (0/1/2 present only if redirected to a simulated pipe end)
};
void setPipeCapacity(size_t bytes);
void setStdinReadable(bool readable);       // whether the simulated process's own descriptor 0 counts as readable in select()
uint64_t exitInChildCount();                // exit() (instead of _exit) calls made between vfork and exec in this run
void setParentStdoutPending(const char* bytes);   // configuration: what the parent's stdio holds un-flushed for its own stdout (an exit() in the vfork child flushes it into the CHILD's descriptor 1)
uint64_t vforkFailureCount();               // injected vfork failures in this run
void setChildMain(void (*fn)(Child*));     // scripted program run by every exec'ed child (harness-supplied); sets c->exitCode
const std::vector<Child*>& allChildren();
Child* findChild(int pid);
bool childKilled(Child* c);

} // namespace simproc
