// simrt driver: worker loop, replay, minimisation, replay-file I/O.  Shared by all harnesses.
#pragma once
#include "sim.hpp"
#include <string>

namespace simdrv {

struct Harness {
  const char* property;     // "C11"
  const char* name;         // "c11_sync"
  // fill spec.knobs and spec.plan from spec.seed (search mode). tier: 0 quick, 1 thorough
  void (*generate)(sim::RunSpec& spec, int tier);
  // run one simulation of spec (search or replay mode according to spec.replay) and return its result
  sim::Result (*execute)(const sim::RunSpec& spec, bool keepLog);
  const char* (*opName)(int code);
  // optional: is this (shrunk) spec still well-formed? (nullptr = always)
  bool (*valid)(const sim::RunSpec& spec);
  // optional: extra modes (e.g. sweeps) executed per generated spec in search mode; returns additional results through cb
  void (*extra)(const sim::RunSpec& spec, int tier, void (*cb)(const sim::RunSpec&, const sim::Result&, void*), void* ctx);
  // names of components
  const char* real_components;
  const char* stub_components;
};

int main(int argc, char** argv, const Harness& h);

// helpers for harnesses
int64_t knob(const sim::RunSpec& s, const char* name, int64_t dflt = 0);
std::string specToJson(const Harness& h, const sim::RunSpec& s, const sim::Result* r, bool pretty);

} // namespace simdrv
