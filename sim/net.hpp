// simnet: in-process kernel model for stream sockets, listeners, epoll, eventfd and pipes (see DESIGN.md §3.1).
#pragma once
#include <stddef.h>
#include <stdint.h>

namespace simnet {

struct FdStats { uint64_t bytes_out; uint64_t bytes_in; uint64_t send_calls; uint64_t recv_calls; };
bool isSimFd(int fd);
FdStats stats(int fd);
void setDefaultCapacity(size_t bytes);          // receive-queue capacity of new stream endpoints (per run)
void setCapacity(int fd, size_t bytes);         // receive-queue capacity of this endpoint (bytes the peer may have in flight towards it)
size_t queued(int fd);                          // bytes waiting to be read on fd
bool peerClosed(int fd);
// hook called after each successful send()/write() on a stream endpoint: (fd, bytes taken by the kernel)
void setSendHook(void (*fn)(int fd, size_t n));
// hook called when recv on a stream endpoint returns 0 or an error other than would-block, or send fails with an error other than would-block
void setFailHook(void (*fn)(int fd, bool isSend, int err));
void setDnsDelayMs(int ms);
size_t acceptQueueLen(int fd);                  // connections waiting to be accepted on a listening descriptor
size_t peerSpace(int fd);                       // bytes the peer's receive queue can still take (0 if the peer is gone)
int  fileIdWatermark();                         // ids of files created from now on are >= this value
uint64_t epollWaitCalls();                      // epoll_wait calls so far in this run (poll rounds)
int  openFdCount();                             // number of simulated descriptors currently open

} // namespace simnet
